#!/bin/sh
# Regenerates sim/go.mod and sim/go.sum from /repo (offline build recipe, DESIGN.md §13).
set -e
cd "$(dirname "$0")/sim"
REPO=${VERIF_REPO:-/repo}
{
  echo "module verif/sim"
  echo
  echo "go 1.26.8"
  echo
  # copy both require blocks and the protobuf replace line from the repo's go.mod
  awk '/^require \(/{p=1} p{print} /^\)/{p=0}' "$REPO/go.mod"
  grep '^replace ' "$REPO/go.mod"
  echo "require github.com/elnosh/gonuts v0.0.0"
  echo "require github.com/anishathalye/porcupine v1.3.0"
  echo "replace github.com/elnosh/gonuts => $REPO"
} > go.mod
cp "$REPO/go.sum" go.sum
