#!/bin/sh
# Offline setup: regenerate the harness go.mod from /repo and warm the build cache.
set -e
cd "$(dirname "$0")"
export GOFLAGS=-mod=mod GOPROXY=off GOSUMDB=off GOTOOLCHAIN=local CGO_ENABLED=1
./gen_gomod.sh
cd sim
go1.26.8 test -c -tags verif -o /dev/null . 
echo setup ok
