#!/usr/bin/env python3
"""Regenerates MANIFEST.json from the table below (kept in one place so it stays valid)."""
import json, subprocess
props = [json.loads(l)['id'] for l in open('/verif/properties.jsonl')]
hooks = subprocess.run(['git','-C','/repo','log','--format=%h','--grep=^verif hooks'],capture_output=True,text=True).stdout.split()

TB = "Trusted base: SQLite/bbolt calls atomic+durable per call; dcrd secp256k1 arithmetic; the SimLN Lightning model and in-process transport are models, LND/CLN adapters and the TCP listener are not executed; interleavings only at storage/Lightning/HTTP call granularity; sampling, not proof."

CHECKS = {
 "C01": ("exploration", "seeded schedule search + replay attacks; per-secret consumption counting over the transport log, drain audit",
         "Thousands of seeded histories of the real mint (HTTP handlers, Mint, SQLite) per run: honest traffic, an attacker re-presenting spent/locked secrets (7 re-presentation modes, duplicates inside one request), and 2-3 concurrent swap/melt requests sharing secrets, interleaved by the decision tape at every storage/Lightning call, under every melt Lightning outcome. Oracle: the Book counts successful consumptions per secret from the bytes on the wire and the Lightning model (<=1, none while locked, SPENT reported afterwards); the drain audit re-checks what the mint honours.", "§9 C01"),
 "C02": ("exploration", "seeded histories against an adversarial-fee Lightning model; per-operation balance invariants + msat conservation audit",
         "Random histories over fee-bearing keysets (ppk 0,1,100,999,1000,2500, rotations, mixed-keyset inputs), adversarial requests (overflowing/zero/non-denomination outputs, outputs>inputs, over-quote mints, under-funded melts), exact-input melts of msat-precision invoices, MPP, internal settlement; SimLN charges the full fee limit. Oracles: per swap/mint/melt balance rules from the wire, fee limit <= fee reserve at every pay call, and the drain audit inequality redeemable + outflow <= inflow in msat.", "§9 C02"),
 "C03": ("exploration", "seeded schedule search over concurrent mint requests, polls, payment and the real invoice watcher; per-quote issuance bound",
         "Per quote: up to three concurrent mint requests with different outputs, pollers, the external payment and the asynchronous 'settled' notification (real checkInvoicePaid goroutine over a SimLN subscription), internal settlement and NUT-20 tampering (8 kinds), scheduled at storage/Lightning-call granularity. Oracle: value issued per quote <= amount x payments, nothing before payment, locked quotes only with a BIP-340 signature that the harness verifies itself.", "§9 C03"),
 "C05": ("fault_enumeration", "enumeration of Lightning answer scripts x consumption channels; independent decision table",
         "Enumerates the script space of the quantifier: pay answer (succeeded/pending/failed/transport error) x every sequence of status answers (not-found/error/failed/pending/succeeded; quick: <=2, thorough: <=3, i.e. scripts of length <=4) x the channel each answer is consumed through (melt's own extra check, quote poll, checkstate) x final outcome x MPP, plus seeded random scripts with background traffic. Oracle: state machine LOCKED/SPENT/RELEASED written from the statement; melt response, quote poll, checkstate and a follow-up swap must agree with it, the preimage must be the payment's, the next poll after the final outcome must adopt it.", "§9 C05"),
 "C07": ("fault_enumeration", "enumeration of (operation x call position x {crash, storage error}) + restart + adversarial follow-up; seeded double-fault/background search",
         "For each of 13 operations (mint quote, mint, locked mint, swap, melt x 5 Lightning outcomes, internal settlement, pending-melt resolution via poll and via checkstate, runtime rotation) a crash (all goroutines of the mint die at their seam, DB handle closed, LoadMint on the same directory) or an injected storage error at every position k=1..12 between its consecutive storage/Lightning calls; then restore/checkstate of everything acknowledged (D), retry/restore/poll of the interrupted operation (A), keyset comparison, Book invariants and drain audit (S). Thorough adds random prior histories and a concurrent background request. 15 genuine atomicity defects that need transactional redesign are listed in known_findings.json and reported as KNOWN-FINDING.", "§9 C07"),
 "C04": ("exploration", "seeded histories with a forging actor; accept-audit against harness-derived keys",
         "A forging actor takes valid unspent proofs (any keyset, after rotations and restarts that re-derive keys) and presents 16 kinds of single-field mutations and forgeries through swap and melt, interleaved with honest traffic. Oracle: every input of every accepted swap/paid melt on the wire must satisfy C == k(id,amount)*hash_to_curve(secret) for the key the harness derives itself (own BIP32 + hash-to-curve over the stored seed); honest unspent proofs must be accepted; a rejected forgery leaves the original spendable. The input-quantified part of the statement is covered only on values arising in simulated histories plus this mutation set.", "§9 C04"),
 "C06": ("exploration", "grammar-mutated requests through the real handler at every state of a running history; full database dump equality + panic trap",
         "Before each valid request (mint quote, mint, locked mint, swap, melt quote, melt, checkstate, restore) 1-3 mutants from a 23-kind grammar (each list emptied/nulled, each field dropped/retyped/garbled/oversized, truncated JSON, wrong content type, semantic duplicates such as two outputs sharing one B_) are delivered through the real HTTP handler. Oracle: complete dump of all SQLite tables plus the Lightning ledger before/after every non-200 answer must be equal (UNPAID->PAID of a really paid invoice normalised), no handler panic, and the original request then succeeds.", "§9 C06"),
 "C09": ("exploration", "seeded operator histories (restarts, load-time and runtime rotations concurrent with traffic); re-derivation of every keyset",
         "Up to 5 keyset generations via restart-rotation and runtime RotateKeyset racing a swap, fees from {0,100,250,1000,2500}, traffic on old and new keysets. After every load/rotation: published keysets are a superset of the previous ones with identical ids/keys/fees, each id is the harness NUT-02 derivation of its 60 keys, each key the harness BIP32 derivation m/0'/0'/idx'/i' of the stored seed, exactly one active; signatures only on a keyset active during the request; outputs on inactive/unknown keysets refused; swaps at the exact fee boundary accepted and one sat above refused per input keyset; DLEQ of every signature verified.", "§9 C09"),
 "C15": ("exploration", "seeded histories with truth queries; reference ledger + porcupine linearizability of concurrent episodes",
         "Histories with swaps, melts in every Lightning outcome, internal settlement, rotations and restarts; checkstate queries mixing spent/unspent/pending/unknown/repeated/malformed Ys and restore queries mixing signed and never-signed B_s, compared with the Book (order, state, spend witness, exact (amount,id,C_,DLEQ) of every signature, nothing for unsigned). Concurrent episodes of swaps, state checks and restores on the same secrets/outputs are checked for linearizability with porcupine (per-secret spend register, per-B_ signature register; keys touched by melts judged by invariants only).", "§9 C15"),
 "C16": ("exploration", "seeded histories under every limits configuration; ledger sums and big-integer limit rules",
         "27 limit configurations (max balance / mint max / melt max each unset, small, at the boundary) x histories with fee-bearing keysets, melts, rotations, restarts. After every step with nothing unresolved: IssuedEcash/RedeemedEcash per keyset equal the Book's sums of signatures handed out and proofs consumed, TotalBalance is their difference, /v1/info shows minting disabled iff balance >= maximum; quote requests at limit-1/limit/limit+1, near 2^63/2^64 and where balance+amount wraps are compared with a math/big evaluation of the three limit rules incl. the error code.", "§9 C16"),
 "C20": ("exploration", "seeded histories through the HTTP handler with hand-built JSON; shape validator, NUT error-code table, NUT-19 exactly-once cache check",
         "Every exchange of random histories is validated against restated NUT shapes (string states, lower-case hex points, sorted key maps, field types, 200/400 only, {detail,code} with NUT codes). 18 rejection causes are provoked with exactly one cause each and the code compared with the restated NUT error table. Responses to injected storage/Lightning failures must be 400 without the injected error text. Byte-identical replays of successful swap/mint requests within the TTL (also after clock advances and other traffic) must return identical bytes with zero storage/Lightning calls by the handler; near-replays (one byte added, query string, other path, other method) must not be served from the cache.", "§9 C20"),
}

NA = {
 "C11": "pure functions of their input (hash-to-curve, keyset id, NUT-13 derivation): no schedule, clock, fault or history for a simulator to explore; deciding it is differential input testing, a different technique (DESIGN.md §10)",
}

checks = []
for p in props:
    if p in CHECKS:
        lvl, tech, text, ref = CHECKS[p]
        checks.append({"property_id": p, "quick_cmd": "./check %s quick" % p, "thorough_cmd": "./check %s thorough" % p,
                       "evidence_file": "/verif/evidence/%s.json" % p, "replay_cmd_template": "./check %s --replay {path}" % p,
                       "engine": "gonuts-sim", "level_claimed": {"category": lvl, "text": text, "design_ref": ref},
                       "level_note": TB, "technique": "deterministic simulation with fault injection: " + tech})
na = [{"property_id": p, "reason": NA.get(p, "check not built yet (work in progress)")} for p in props if p not in CHECKS]
m = {"version": 1, "setup_cmd": "./setup.sh",
     "hooks": {"guard": "verif", "enable": "go1.26.8 test -tags verif on the harness module /verif/sim (replace github.com/elnosh/gonuts => /repo)",
               "baseline_off_cmd": "cd /repo && GOFLAGS=-mod=mod go test -vet=off -count=1 ./...",
               "source_commits": hooks, "add_only": True},
     "engines": [{"name": "gonuts-sim", "path": "/verif/sim", "serves_properties": sorted(CHECKS),
                  "kind_free_text": "deterministic simulation with fault injection: seeded scheduler over storage/Lightning/HTTP seams inside a testing/synctest bubble, SimLN Lightning-network model, reference-ledger oracles, drain audit, tape minimiser and replay"}],
     "checks": checks, "not_applicable": na,
     "notes": "Checks exit 2 (never VIOLATION) on build/harness trouble. known_findings.json lists fixed and known findings. See DESIGN.md."}
json.dump(m, open('/verif/MANIFEST.json', 'w'), indent=1)
print("claimed:", sorted(CHECKS), "na:", len(na))
