package sim

import (
	"bytes"
	"encoding/json"
	"errors"
	"fmt"
	"io"
	"net/http"
	"net/http/httptest"
	"runtime/debug"
	"sort"
	"strings"
)

// HTTPObs is one client-visible request/response pair of the observation log.
type HTTPObs struct {
	Seq      int    // sequence number at invocation
	RetSeq   int    // sequence number at return
	Caller   string // task name
	From     string // caller node
	Mint     string
	Method   string
	Path     string // request URI (path + query)
	Req      []byte
	Status   int // 0 = transport error
	Resp     []byte
	Err      string
	Panic    string
	Executed bool   // handler ran to completion
	Handler  string // task that executed the handler
}

// NetFault is a transport fault the caller's next request will meet.
type NetFault struct {
	Skip     int // let this many requests of the node pass before the loss fault hits
	ReqLoss  bool
	RespLoss bool
	// CorruptResp, when set, rewrites the response body (C10).
	CorruptResp func(path string, body []byte) []byte
}

type Net struct {
	s      *Sim
	World  *World
	Obs    []*HTTPObs
	nReq   map[string]int
	Faults map[string]*NetFault // by caller node, consumed by the next request of that node
	// StripDLEQ removes dleq from responses (legacy mint sub-profile of C08)
	Panics []string
	// RespHook rewrites every 200 response body on its way to the client (legacy mint without DLEQ, C08)
	RespHook func(path string, body []byte) []byte
	// MeltHandlers: handler task names of POST /v1/melt/bolt11 requests
	MeltHandlers map[string]bool
}

var errConnReset = errors.New("SIMNET connection reset by peer")
var errConnRefused = errors.New("SIMNET connection refused")
var errEOF = errors.New("SIMNET EOF")

func NewNet(s *Sim, w *World) *Net {
	return &Net{s: s, World: w, nReq: map[string]int{}, Faults: map[string]*NetFault{}, MeltHandlers: map[string]bool{}}
}

type httpResult struct {
	rec *httptest.ResponseRecorder
	err error
}

func (n *Net) RoundTrip(req *http.Request) (*http.Response, error) {
	var body []byte
	if req.Body != nil {
		body, _ = io.ReadAll(req.Body)
		req.Body.Close()
	}
	mintName := req.URL.Host
	caller := n.s.CurrentTask()
	callerName, from := "driver", "driver"
	var callerInc *Inc
	fg := true
	if caller != nil {
		callerName = caller.Name
		callerInc = caller.Inc
		fg = caller.FG
		if callerInc != nil {
			from = callerInc.Node
		}
	}
	uri := req.URL.RequestURI()
	n.s.Yield(callerInc, "http", fmt.Sprintf("http %s %s%s", req.Method, mintName, uri))

	obs := &HTTPObs{Seq: n.s.Seq(), Caller: callerName, From: from, Mint: mintName, Method: req.Method, Path: uri, Req: body}
	n.Obs = append(n.Obs, obs)
	fail := func(err error) (*http.Response, error) {
		obs.Err = err.Error()
		obs.RetSeq = n.s.Seq()
		if n.World.Book != nil {
			n.World.Book.Ingest(obs)
		}
		return nil, err
	}

	fault := n.Faults[from]
	if fault != nil && (fault.ReqLoss || fault.RespLoss) {
		if fault.Skip > 0 {
			fault.Skip--
			fault = nil
		} else {
			delete(n.Faults, from) // loss faults hit this request; corruption waits for a response it can alter
		}
	}
	if fault != nil && fault.ReqLoss {
		n.s.Stats["fault_net_req_loss"]++
		n.s.Log("fault", callerName, "net_req_loss "+uri)
		return fail(errConnReset)
	}

	node := n.World.Mints[mintName]
	if node == nil || node.Inc == nil || !node.Inc.Alive {
		return fail(errConnRefused)
	}
	handler := node.Handler
	inc := node.Inc

	// the request as a server would see it: path-only URL, fresh body
	sreq, _ := http.NewRequest(req.Method, uri, bytes.NewReader(body))
	sreq.RequestURI = uri
	for k, v := range req.Header {
		sreq.Header[k] = v
	}
	sreq.Host = mintName
	rec := httptest.NewRecorder()

	var res httpResult
	if caller == nil {
		// driver: run inline, no scheduling
		obs.Handler = "driver"
		func() {
			defer func() {
				if r := recover(); r != nil {
					if he, ok := r.(HarnessError); ok {
						panic(he)
					}
					obs.Panic = fmt.Sprint(r)
					n.Panics = append(n.Panics, fmt.Sprintf("%s %s: %v\n%s", req.Method, uri, r, trimStack(debug.Stack())))
					res.err = errEOF
				}
			}()
			handler.ServeHTTP(rec, sreq)
			res.rec = rec
		}()
	} else {
		n.nReq[callerName]++
		done := make(chan httpResult, 1)
		obs.Handler = fmt.Sprintf("%s/h%d", callerName, n.nReq[callerName])
		if req.Method == "POST" && strings.HasPrefix(uri, "/v1/melt/bolt11") {
			n.MeltHandlers[obs.Handler] = true
		}
		finished := false
		n.s.GoC(obs.Handler, inc, fg, func() {
			defer func() {
				if r := recover(); r != nil {
					if he, ok := r.(HarnessError); ok {
						panic(he)
					}
					obs.Panic = fmt.Sprint(r)
					n.Panics = append(n.Panics, fmt.Sprintf("%s %s: %v\n%s", req.Method, uri, r, trimStack(debug.Stack())))
					n.s.Log("panic", callerName, uri+": "+obs.Panic)
					finished = true
					done <- httpResult{err: errEOF}
					return
				}
			}()
			handler.ServeHTTP(rec, sreq)
			finished = true
			done <- httpResult{rec: rec}
		}, func() {
			if !finished {
				// the mint died (Goexit) before or while handling the request
				done <- httpResult{err: errConnReset}
			}
		})
		res = <-done
	}
	if res.err != nil {
		return fail(res.err)
	}
	obs.Executed = true
	obs.Status = rec.Code
	obs.Resp = canonKeysets(uri, rec.Code, rec.Body.Bytes())
	obs.RetSeq = n.s.Seq()
	if n.World.Book != nil {
		n.World.Book.Ingest(obs)
	}
	if fault != nil && fault.RespLoss {
		n.s.Stats["fault_net_resp_loss"]++
		n.s.Log("fault", callerName, "net_resp_loss "+uri)
		obs.Err = "response lost"
		return nil, errConnReset
	}
	respBody := obs.Resp
	if n.RespHook != nil && rec.Code == 200 {
		respBody = n.RespHook(uri, respBody)
	}
	if fault != nil && fault.CorruptResp != nil && rec.Code == 200 {
		nb := fault.CorruptResp(uri, respBody)
		if !bytes.Equal(nb, respBody) {
			delete(n.Faults, from)
			n.s.Stats["fault_net_corrupt_resp"]++
			n.s.Log("fault", callerName, "net_corrupt_resp "+uri)
			respBody = nb
		}
	}
	resp := &http.Response{
		StatusCode: rec.Code,
		Status:     fmt.Sprintf("%d %s", rec.Code, http.StatusText(rec.Code)),
		Header:     rec.Header().Clone(),
		Body:       io.NopCloser(bytes.NewReader(respBody)),
		Request:    req,
		Proto:      "HTTP/1.1", ProtoMajor: 1, ProtoMinor: 1,
		ContentLength: int64(len(respBody)),
	}
	return resp, nil
}

func trimStack(b []byte) string {
	lines := strings.Split(string(b), "\n")
	var keep []string
	for _, l := range lines {
		if strings.Contains(l, "gonuts") {
			keep = append(keep, strings.TrimSpace(l))
		}
		if len(keep) >= 8 {
			break
		}
	}
	return strings.Join(keep, " | ")
}

// canonKeysets: gonuts emits the array of GET /v1/keysets in Go map iteration order, which differs
// from run to run. The array order carries no meaning, so the transport delivers it sorted by id
// (content-preserving); every client - harness actors and real wallets - then behaves identically
// for the same decision tape (DESIGN.md §8).
func canonKeysets(uri string, code int, body []byte) []byte {
	if code != 200 || !(uri == "/v1/keysets" || strings.HasPrefix(uri, "/v1/keysets?")) {
		return body
	}
	var m struct {
		Keysets []json.RawMessage `json:"keysets"`
	}
	if json.Unmarshal(body, &m) != nil || len(m.Keysets) < 2 {
		return body
	}
	type kv struct {
		id  string
		raw json.RawMessage
	}
	var ks []kv
	for _, r := range m.Keysets {
		var x struct {
			ID string `json:"id"`
		}
		if json.Unmarshal(r, &x) != nil {
			return body
		}
		ks = append(ks, kv{x.ID, r})
	}
	sort.SliceStable(ks, func(i, j int) bool { return ks[i].id < ks[j].id })
	var b bytes.Buffer
	b.WriteString(`{"keysets":[`)
	for i, k := range ks {
		if i > 0 {
			b.WriteByte(',')
		}
		b.Write(k.raw)
	}
	b.WriteString("]}")
	return b.Bytes()
}
