package sim

import (
	"encoding/base64"
	"fmt"
	"sort"
	"strings"

	"github.com/elnosh/gonuts/cashu"
	"github.com/elnosh/gonuts/wallet"
)

// C14 — tokens survive serialisation exactly; decoding arbitrary text never crashes.
// Scope (DESIGN.md §9 C14): tokens that simulated wallets produce (V3/V4, multi-keyset after
// rotation, NUT-10 secrets, witnesses, DLEQ on/off) and their channel-corrupted variants.

func init() {
	Register(&Profile{Prop: "C14", Fatal: []string{"C14."}, Run: runC14, Core: coreC14})
}

func coreC14(tier string) []RunSpec {
	var out []RunSpec
	for k := 0; k < 6; k++ {
		out = append(out, RunSpec{Profile: "core:tokens", Params: map[string]int{"k": k}})
	}
	return out
}

func proofKey(p cashu.Proof, withDLEQ bool) string {
	s := fmt.Sprintf("%d|%s|%s|%s|%s", p.Amount, p.Id, p.Secret, strings.ToLower(p.C), p.Witness)
	if withDLEQ {
		if p.DLEQ != nil {
			s += "|" + strings.ToLower(p.DLEQ.E) + "|" + strings.ToLower(p.DLEQ.S) + "|" + strings.ToLower(p.DLEQ.R)
		} else {
			s += "|nodleq"
		}
	}
	return s
}

func multiset(ps cashu.Proofs, withDLEQ bool) string {
	ks := make([]string, len(ps))
	for i, p := range ps {
		ks[i] = proofKey(p, withDLEQ)
	}
	sort.Strings(ks)
	return strings.Join(ks, "\n")
}

// guarded runs f and reports a panic as violation.
func (ww *WW) guarded(what, input string, f func()) (panicked bool) {
	defer func() {
		if r := recover(); r != nil {
			if he, ok := r.(HarnessError); ok {
				panic(he)
			}
			panicked = true
			ww.W.Book.Violate("C14.panic", what, "%s panicked on input %q: %v", what, cut(input, 40), r)
		}
	}()
	f()
	return false
}

// RoundTrip: build V3 and V4 tokens from proofs, serialise, decode, compare.
func (ww *WW) RoundTrip(proofs cashu.Proofs, mintURL string) {
	W := ww.W
	for _, v4 := range []bool{false, true} {
		for _, dleq := range []bool{false, true} {
			hasAll := true // false if some proof carries an incomplete DLEQ (no r): V4 cannot encode that
			for _, p := range proofs {
				if p.DLEQ != nil && p.DLEQ.R == "" {
					hasAll = false
				}
			}
			ver := "V3"
			if v4 {
				ver = "V4"
			}
			s, err := MakeToken(proofs, mintURL, v4, dleq)
			if err != nil {
				if dleq && !hasAll {
					continue // DLEQ requested but not complete: refusing is fine
				}
				W.Book.Violate("C14.build_failed", ver, "building a %s token (dleq=%v) from %d wallet proofs failed: %v", ver, dleq, len(proofs), err)
				continue
			}
			var tok cashu.Token
			if ww.guarded("DecodeToken", s, func() { tok, err = cashu.DecodeToken(s) }) {
				continue
			}
			if err != nil {
				W.Book.Violate("C14.decode_failed", ver, "decoding a freshly serialised %s token failed: %v", ver, err)
				continue
			}
			ww.rc.S.Probe("c14_roundtrip_" + ver)
			var got cashu.Proofs
			var mint string
			var amt uint64
			ww.guarded("accessors", s, func() { got = tok.Proofs(); mint = tok.Mint(); amt = tok.Amount() })
			if mint != mintURL {
				W.Book.Violate("C14.mint_url", ver, "%s token decodes to mint %q, built for %q", ver, mint, mintURL)
			}
			if amt != proofs.Amount() {
				W.Book.Violate("C14.amount", ver, "%s token amount %d, proofs sum to %d", ver, amt, proofs.Amount())
			}
			// with DLEQ requested every proof comes back with exactly the DLEQ it had (present, absent: partial sets too)
			wantDLEQ := dleq && hasAll
			exp := make(cashu.Proofs, len(proofs))
			copy(exp, proofs)
			if multiset(got, wantDLEQ) != multiset(exp, wantDLEQ) {
				W.Book.Violate("C14.proofs_differ", ver, "%s token (dleq=%v) does not decode to the same proofs (%d in, %d out)", ver, dleq, len(exp), len(got))
			}
			if !dleq {
				for _, p := range got {
					if p.DLEQ != nil {
						W.Book.Violate("C14.dleq_not_stripped", ver, "%s token built without DLEQ still carries one", ver)
						break
					}
				}
			}
			// serialise the decoded token again: same proofs
			var s2 string
			ww.guarded("Serialize", s, func() { s2, err = tok.Serialize() })
			if err == nil && s2 != "" {
				if t2, e2 := cashu.DecodeToken(s2); e2 == nil {
					if multiset(t2.Proofs(), wantDLEQ) != multiset(exp, wantDLEQ) {
						W.Book.Violate("C14.reserialize_differs", ver, "re-serialised %s token decodes to different proofs", ver)
					}
				}
			}
		}
	}
}

// synthProofs: a proof list as the quantifier describes it, beyond what wallets happen to produce:
// 0..40 proofs over 1..4 keyset ids, secrets that are hex, NUT-10 JSON with quotes, unicode or
// characters whose base64 differs between the alphabets, witnesses, DLEQ present / absent /
// partial, amounts up to 2^63. All drawn from the decision tape (replayable, shrinkable).
func (ww *WW) synthProofs() cashu.Proofs {
	T := ww.T
	n := T.Choose("syn.n", 41)
	nk := 1 + T.Choose("syn.nk", 4)
	ids := make([]string, nk)
	for i := range ids {
		ids[i] = "00" + randHex(7)
	}
	dleqMode := T.Choose("syn.dleq", 3) // 0 none, 1 all, 2 partial
	ps := make(cashu.Proofs, n)
	for i := range ps {
		var secret string
		switch T.Choose("syn.secret", 6) {
		case 0:
			secret = randHex(32)
		case 1:
			secret = `["P2PK",{"nonce":"` + randHex(16) + `","data":"02` + randHex(32) + `","tags":[["sigflag","SIG_ALL"],["n_sigs","2"]]}]`
		case 2:
			secret = "sécret-ünïcode-日本語-" + randHex(4)
		case 3:
			secret = `quote " backslash \ slash / tab	 <>&` + randHex(4)
		case 4:
			secret = "???~~~>>>" + randHex(3) + "\u00ff"
		case 5:
			secret = strings.Repeat("ÿ~?", 1+T.Choose("syn.rep", 40))
		}
		p := cashu.Proof{
			Amount: uint64(1) << uint(T.Choose("syn.amt", 64)),
			Id:     ids[T.Choose("syn.id", nk)],
			Secret: secret,
			C:      "02" + randHex(32),
		}
		if T.Chance("syn.wit", 1, 3) {
			p.Witness = `{"signatures":["` + randHex(64) + `"],"note":"ü?~"}`
		}
		if dleqMode == 1 || (dleqMode == 2 && i%2 == 0) {
			p.DLEQ = &cashu.DLEQProof{E: randHex(32), S: randHex(32), R: randHex(32)}
		}
		ps[i] = p
	}
	// keep the sum inside uint64 (the amount clause compares sums)
	var sum uint64
	for i := range ps {
		if ps[i].Amount > ^uint64(0)-sum {
			ps[i].Amount = 1
		}
		sum += ps[i].Amount
	}
	return ps
}

// Corrupted: the channel truncates / flips bytes; decoding and receiving must never panic.
func (ww *WW) Corrupted(tok *OutToken) {
	T := ww.T
	s := tok.Str
	var variants []string
	for n := 0; n <= 8 && n <= len(s); n++ {
		variants = append(variants, s[:n])
	}
	variants = append(variants, "cashu", "cashuA", "cashuB", "cashuC"+s[6:], "CASHUA"+s[6:], s[6:], "cashuA"+"!!!!", "cashuB"+"AAAA", "cashuAe30", "cashuAeyJ0b2tlbiI6W119", "cashuBoA")
	for k := 0; k < 6; k++ {
		n := T.Choose("c14.trunc", len(s)+1)
		variants = append(variants, s[:n])
		b := []byte(s)
		if len(b) > 0 {
			i := T.Choose("c14.flip", len(b))
			b[i] ^= byte(1 << uint(T.Choose("c14.bit", 7)))
			variants = append(variants, string(b))
		}
	}
	variants = append(variants, s+s, s+"=", strings.ToUpper(s))
	// framing a channel may add: blanks, line ends, the cashu: URI scheme — around nothing, around short
	// prefixes and around the whole token
	for _, pad := range []string{" ", "\n", "\t", "\r\n", "cashu:", "cashu://", "web+cashu://", "\x00", "\ufeff"} {
		for n := 0; n <= 8 && n <= len(s); n++ {
			variants = append(variants, pad+s[:n], s[:n]+pad, pad+s[:n]+pad)
		}
		variants = append(variants, pad+s, s+pad, strings.Repeat(pad, 6), strings.Repeat(pad, 7), pad+"cashu", " "+pad+" ")
	}
	// well-formed base64 of arbitrary small JSON documents (V3) and CBOR items (V4)
	for _, doc := range []string{`null`, ` null `, `true`, `0`, `""`, `[]`, `{}`, `[null]`, `{"token":null}`, `{"token":[null]}`,
		`{"token":[{}]}`, `{"token":[{"mint":null,"proofs":null}]}`, `{"token":[{"mint":"m","proofs":[null]}]}`,
		`{"token":[{"mint":"m","proofs":[{"amount":"x"}]}]}`, `{"token":{}}`, `{"token":"x"}`, `{"unit":5,"memo":[]}`, `[[[[[[]]]]]]`, `{"token":[{"proofs":[{"amount":1,"id":null,"secret":null,"C":null,"dleq":null,"witness":null}]}]}`} {
		variants = append(variants, "cashuA"+base64.URLEncoding.EncodeToString([]byte(doc)), "cashuA"+base64.RawURLEncoding.EncodeToString([]byte(doc)))
	}
	for _, item := range [][]byte{{0xf6}, {0xf5}, {0x00}, {0x60}, {0x80}, {0xa0}, {0x81, 0xf6}, {0xa1, 0x61, 0x74, 0xf6}, {0xa1, 0x61, 0x74, 0x81, 0xf6},
		{0xa1, 0x61, 0x74, 0x81, 0xa0}, {0xa1, 0x61, 0x74, 0x81, 0xa2, 0x61, 0x69, 0xf6, 0x61, 0x70, 0xf6}, {0xa1, 0x61, 0x74, 0x81, 0xa2, 0x61, 0x69, 0x40, 0x61, 0x70, 0x81, 0xf6},
		{0xa1, 0x61, 0x74, 0x81, 0xa2, 0x61, 0x69, 0x40, 0x61, 0x70, 0x81, 0xa0}, {0xa1, 0x61, 0x74, 0xa0}, {0xa2, 0x61, 0x6d, 0x01, 0x61, 0x75, 0x02}, {0x9f, 0xff}, {0xbf, 0xff}, {0xc0, 0xf6}, {0xfb, 0, 0, 0, 0, 0, 0, 0, 0}} {
		variants = append(variants, "cashuB"+base64.URLEncoding.EncodeToString(item), "cashuB"+base64.RawURLEncoding.EncodeToString(item))
	}
	to := tok.To
	if to == "" {
		to = ww.Wallets[0]
	}
	for _, v := range variants {
		var t cashu.Token
		var err error
		ww.rc.S.Probe("c14_corrupted_decoded")
		if ww.guarded("DecodeToken", v, func() { t, err = cashu.DecodeToken(v) }) {
			continue
		}
		if err != nil || t == nil {
			continue
		}
		ww.rc.S.Probe("c14_corrupted_accepted_by_decoder")
		ww.guarded("accessors", v, func() {
			_ = t.Proofs()
			_ = t.Amount()
			_ = t.Mint()
			_, _ = t.Serialize()
		})
		// the receiving wallet must survive it too (as `nutw receive` would call it)
		if T.Chance("c14.recv", 1, 3) {
			n := ww.node(to)
			if n == nil || n.W == nil {
				continue
			}
			ww.W.WalletOp(to, ww.name("c14recv"), nil, func(wl *wallet.Wallet) {
				ww.guarded("Wallet.Receive", v, func() { wl.Receive(t, false) })
			})
			ww.rc.S.Probe("c14_corrupted_received")
		}
	}
	ww.rc.Nontrivial = true
}

func runC14(rc *RunCtx) {
	T := rc.T
	fees := []uint{c17Fees[T.Choose("cfg.fee", 3)]}
	ww := rc.NewWalletWorld(LNConfig{FeePolicy: 1}, fees, 2)
	for i := range ww.Wallets {
		ww.step = -1 - i
		ww.StepMint()
	}
	done := map[*OutToken]bool{}
	rc.StepLoop(3, 10, func(i int) {
		ww.step = i
		switch T.Pick("step.kind", 4, 3, 1, 2, 1) {
		case 0:
			ww.StepSend()
		case 1:
			ww.StepSendLocked()
		case 2:
			ww.StepRotate([]uint64{0, 100})
			ww.StepMint()
		case 3:
			ww.StepReceive()
		case 4:
			ww.StepMint()
		}
		for _, tok := range ww.Tokens {
			if done[tok] {
				continue
			}
			done[tok] = true
			ww.RoundTrip(tok.Proofs, ww.mintURL(tok.Mint))
			// proofs with witnesses as a co-signer would hand them over
			wp := make(cashu.Proofs, len(tok.Proofs))
			copy(wp, tok.Proofs)
			for j := range wp {
				wp[j].Witness = `{"signatures":["` + randHex(64) + `"]}`
			}
			ww.RoundTrip(wp, ww.mintURL(tok.Mint))
			// partial DLEQ: every second proof handed over without its DLEQ
			pp := make(cashu.Proofs, len(tok.Proofs))
			copy(pp, tok.Proofs)
			for j := range pp {
				if j%2 == 1 {
					pp[j].DLEQ = nil
				}
			}
			if len(pp) > 1 {
				ww.RoundTrip(pp, ww.mintURL(tok.Mint))
				rc.S.Probe("c14_partial_dleq_token")
			}
			ww.Corrupted(tok)
		}
	})
	// synthetic proof lists and mint URLs (the part of the quantifier wallets never produce)
	nsyn := 2 + T.Choose("syn.lists", 4)
	for k := 0; k < nsyn; k++ {
		ps := ww.synthProofs()
		url := []string{"http://A", "https://mint.example.com/path?x=1&y=~", "http://münt.example/ü", "https://mint.example.com/", "http://a//", "HTTP://Mint.Example.COM:3338/Path/"}[T.Choose("syn.url", 6)]
		if len(ps) == 0 {
			// a token without proofs: building may be refused, but nothing may panic
			ww.guarded("NewToken(empty)", "", func() { MakeToken(ps, url, false, false); MakeToken(ps, url, true, false) })
			continue
		}
		if keysetsOf(ps) > 1 {
			// V4 groups by keyset id, V3 has no restriction: both must round-trip
			rc.S.Probe("c14_synthetic_multi_keyset")
		}
		ww.RoundTrip(ps, url)
		rc.S.Probe("c14_synthetic_roundtrip")
	}
	// the whole wallet content as one token (multi-keyset after rotation)
	for _, w := range ww.Wallets {
		if n := ww.node(w); n != nil && n.W != nil {
			if ps := n.Inner.GetProofs(); len(ps) > 0 {
				ww.RoundTrip(ps, n.Mint)
				if keysetsOf(ps) > 1 {
					rc.S.Probe("c14_multi_keyset_token")
				}
			}
		}
	}
}
