package sim

// C02 — no inflation. Fee-bearing keysets incl. rotations (mixed-keyset inputs),
// adversarial requests, internal settlement, MPP, msat-precision invoices, against a
// Lightning model that charges the full fee limit it is given.

func init() {
	Register(&Profile{Prop: "C02", Fatal: []string{"C02."}, Run: runC02, Core: coreC02})
}

var c02Fees = []uint64{0, 1, 100, 999, 1000, 2500}

func coreC02(tier string) []RunSpec {
	var out []RunSpec
	for fi := range c02Fees {
		for _, kind := range []string{"melt", "swap", "adversarial", "internal", "mintrace", "stalerelease", "meltpollrace"} {
			out = append(out, RunSpec{Profile: "core:" + kind, Params: map[string]int{"force": mwKind(kind), "fee": fi}})
		}
	}
	for k := 0; k < 64; k++ {
		out = append(out, RunSpec{Profile: "core:melts-share-one-quote", Params: map[string]int{"force": mwKind("race"), "rshared": 1, "fee": k % 2, "mix": 0, "k": k}})
	}
	for k := 0; k < 3; k++ {
		out = append(out, RunSpec{Profile: "core:forged-invoice-same-hash", Params: map[string]int{"force": mwKind("adversarial"), "advmode": 9, "fee": 0, "k": k}})
	}
	for fi := range c02Fees {
		out = append(out, RunSpec{Profile: "core:swap-outputs-near-2^64", Params: map[string]int{"force": mwKind("adversarial"), "advmode": 10, "fee": fi}})
	}
	out = append(out, RunSpec{Profile: "core:mint-outputs-wrap", Params: map[string]int{"force": mwKind("adversarial"), "advmode": 11, "fee": 0}})
	// MPP melts whose partial amount is a whole number of sats sitting on a step of the fee-reserve
	// function (1 % rounded up: multiples of 100 sat): the fee limit must be the reserve, not more
	for _, sat := range []int{200, 400} {
		for fp := 1; fp <= 3; fp += 2 {
			out = append(out, RunSpec{Profile: "core:mpp-on-fee-step", Params: map[string]int{"force": mwKind("melt"), "meltsat": sat, "feepol": fp, "fee": 0, "mix": 0}})
		}
	}
	return out
}

func runC02(rc *RunCtx) {
	T := rc.T
	ln := LNConfig{FeePolicy: 1 + T.Choose("cfg.feepol", 3), PayOutcomeMix: T.Choose("cfg.mix", 2), ChargeFull: true}
	if T.Chance("cfg.feepol0", 1, 5) {
		ln.FeePolicy = 0
	}
	if v, ok := rc.Spec.Params["feepol"]; ok {
		ln.FeePolicy = v
	}
	if v, ok := rc.Spec.Params["mix"]; ok {
		ln.PayOutcomeMix = v
	}
	fi := T.Choose("cfg.fee", len(c02Fees))
	if v, ok := rc.Spec.Params["fee"]; ok {
		fi = v
	}
	fee := c02Fees[fi]
	rc.NewMintWorld(ln, MintOpts{Fee: uint(fee), MPP: true})
	m := NewMW(rc, "A")
	m.Locks = true
	m.MPP = true
	if rc.Spec.Profile == "random" {
		rc.S.Policy = T.Choose("cfg.policy", 3)
	}
	m.Strict = ln.PayOutcomeMix == 0
	m.Fees = map[string][]uint64{"A": c02Fees}
	rc.Quietly(func() {
		m.User.Fund("A", 127)
		m.User.Fund("A", 300)
	})
	forced, isForced := rc.Spec.Params["force"]
	m.forceAdvMode = rc.P("advmode", 0)
	m.forceRaceShared = rc.P("rshared", 0) == 1
	m.forceMeltSat = uint64(rc.P("meltsat", 0))
	if m.forceMeltSat > 0 {
		rc.Quietly(func() { m.User.Fund("A", 1024) })
	}
	// weights:       fund swap melt resolve replay dup race checkstate restore restart clock adv internal rotate mintrace stalerelease meltpollrace
	weights := []int{2, 5, 5, 2, 0, 0, 1, 0, 0, 2, 0, 4, 2, 1, 2, 1, 2}
	// a quarter of the random runs additionally inject storage errors into ordinary operations
	faults := !isForced && T.Chance("cfg.faults", 1, 4)
	rc.StepLoop(3, 16, func(i int) {
		m.step = i
		kind := T.Pick("step.kind", weights...)
		if isForced && i%2 == 0 {
			kind = forced
		}
		m.StepMaybeFaulted(kind, true, faults)
	})
	m.Finale()
	rc.Nontrivial = rc.S.Stats["book_swap_ok"] > 2 || rc.S.Stats["ln_pay_attempt"] > 0
}
