package sim

import (
	"crypto/sha256"
	"encoding/binary"
	"encoding/hex"
	"fmt"
	"os"
	"runtime/debug"
	"sort"
	"strings"
	"testing"
	"testing/cryptotest"
	"testing/synctest"
	"time"
)

type RunSpec struct {
	Prop    string         `json:"prop"`
	Profile string         `json:"profile"` // "random" or a core-scenario name
	Seed    uint64         `json:"seed"`
	Index   int            `json:"index"`
	Params  map[string]int `json:"params,omitempty"`
	Tape    [][]Choice     `json:"tape,omitempty"` // replay
	Trace   bool           `json:"trace,omitempty"`
}

type RunResult struct {
	Spec       RunSpec        `json:"spec"`
	Fatal      []Violation    `json:"fatal,omitempty"`
	Notes      []Violation    `json:"notes,omitempty"`
	Stats      map[string]int `json:"stats"`
	Steps      int            `json:"steps"`
	SimSeconds int64          `json:"sim_s"`
	SchedHash  string         `json:"sched_hash"`
	StateHash  string         `json:"state_hash"`
	OpsKey     string         `json:"ops_key"`
	Nontrivial bool           `json:"nontrivial"`
	Tape       [][]Choice     `json:"tape,omitempty"`
	Events     []Event        `json:"events,omitempty"`
	Sample     []string       `json:"sample,omitempty"`
	HarnessErr string         `json:"harness_err,omitempty"`
	WallMs     int64          `json:"wall_ms"`
	LogHash    string         `json:"log_hash"`
	Panics     []string       `json:"panics,omitempty"`
}

// RunCtx is what a profile sees.
type RunCtx struct {
	Dir  string
	Spec RunSpec
	S    *Sim
	T    *Tape
	W    *World
	Res  *RunResult
	Ops  []string // operation kinds executed, for the distinctness key / sample
	// Nontrivial is set by the profile when the property's mechanism was exercised
	Nontrivial bool
}

func (rc *RunCtx) Op(kind string) {
	rc.Ops = append(rc.Ops, kind)
	rc.S.Log("op", "", kind)
}

func (rc *RunCtx) P(name string, def int) int {
	if v, ok := rc.Spec.Params[name]; ok {
		return v
	}
	return def
}

type Profile struct {
	Prop string
	// Fatal rule prefixes: violations of these rules fail this property's check.
	Fatal []string
	Run   func(rc *RunCtx)
	// Core scenarios enumerated in quick (and thorough) tiers before random search.
	Core func(tier string) []RunSpec
}

var Profiles = map[string]*Profile{}

func Register(p *Profile) { Profiles[p.Prop] = p }

func SeedFor(base uint64, prop string, idx int) uint64 {
	h := sha256.New()
	var b [16]byte
	binary.BigEndian.PutUint64(b[:8], base)
	binary.BigEndian.PutUint64(b[8:], uint64(idx))
	h.Write(b[:])
	h.Write([]byte(prop))
	s := h.Sum(nil)
	return binary.BigEndian.Uint64(s[:8])
}

func isFatal(p *Profile, rule string) bool {
	for _, f := range p.Fatal {
		if strings.HasPrefix(rule, f) {
			return true
		}
	}
	return false
}

var runCounter int

// Exec executes one run inside its own subtest, bubble and seeded crypto/rand.
func Exec(t *testing.T, spec RunSpec) (res RunResult) {
	prof := Profiles[spec.Prop]
	if prof == nil {
		return RunResult{Spec: spec, HarnessErr: "unknown property " + spec.Prop}
	}
	res.Spec = spec
	res.Stats = map[string]int{}
	start := time.Now()
	runCounter++
	dir, err := os.MkdirTemp("", fmt.Sprintf("run-%s-%d-", spec.Prop, runCounter))
	if err != nil {
		res.HarnessErr = err.Error()
		return
	}
	defer os.RemoveAll(dir)
	wd := time.AfterFunc(180*time.Second, func() {
		fmt.Fprintf(os.Stderr, "WATCHDOG: run %s/%s seed %d idx %d exceeded 180s real time\n", spec.Prop, spec.Profile, spec.Seed, spec.Index)
		buf := make([]byte, 1<<20)
		n := runtimeStack(buf)
		os.Stderr.Write(buf[:n])
		os.Exit(2)
	})
	defer wd.Stop()

	t.Run(fmt.Sprintf("r%d", runCounter), func(t *testing.T) {
		cryptotest.SetGlobalRandom(t, spec.Seed)
		func() {
			defer func() {
				if r := recover(); r != nil {
					msg := fmt.Sprint(r)
					if !strings.Contains(msg, "deadlock: main bubble goroutine has exited") {
						res.HarnessErr = "panic outside run body: " + msg
					}
				}
			}()
			synctest.Test(t, func(t *testing.T) {
				body(spec, prof, dir, &res)
			})
		}()
	})
	res.WallMs = time.Since(start).Milliseconds()
	return
}

func body(spec RunSpec, prof *Profile, dir string, res *RunResult) {
	var tape *Tape
	if spec.Tape != nil {
		tape = ReplayTape(spec.Tape)
	} else {
		tape = NewTape(spec.Seed)
	}
	s := NewSim(tape)
	s.TraceOn = true
	rc := &RunCtx{Dir: dir, Spec: spec, S: s, T: tape, Res: res}
	t0 := time.Now()
	defer func() {
		if r := recover(); r != nil {
			if he, ok := r.(HarnessError); ok {
				res.HarnessErr = he.Msg
			} else {
				res.HarnessErr = fmt.Sprintf("panic in harness: %v\n%s", r, debug.Stack())
			}
		}
		if rc.W != nil {
			func() {
				defer func() { recover() }()
				rc.W.Close()
			}()
		}
		res.Steps = s.Steps
		res.SimSeconds = int64(time.Since(t0).Seconds())
		res.SchedHash = fmt.Sprintf("%016x", s.SchedHash)
		res.Tape = tape.Snapshot()
		for k, v := range s.Stats {
			res.Stats[k] = v
		}
		res.Nontrivial = rc.Nontrivial
		res.OpsKey = strings.Join(rc.Ops, ",")
		if rc.W != nil {
			for _, v := range rc.W.Book.Violations {
				if isFatal(prof, v.Rule) {
					res.Fatal = append(res.Fatal, v)
				} else {
					res.Notes = append(res.Notes, v)
				}
			}
			res.Panics = rc.W.Net.Panics
			res.StateHash = rc.W.StateHash()
		}
		// trouble of the harness *after* the property's oracle already fired is a consequence of the
		// violation (the world is no longer what honest actors expect), not a reason to discard it
		if res.HarnessErr != "" && len(res.Fatal) > 0 {
			res.Notes = append(res.Notes, Violation{Rule: "harness.after_violation", Msg: res.HarnessErr})
			res.HarnessErr = ""
		}
		// full-log hash for the determinism self-test
		h := sha256.New()
		for _, e := range s.Events {
			fmt.Fprintf(h, "%d|%d|%s|%s|%s\n", e.Seq, e.T, e.Kind, e.Task, e.Label)
		}
		if rc.W != nil {
			for _, o := range rc.W.Net.Obs {
				fmt.Fprintf(h, "%d|%s|%s|%s|%d|", o.Seq, o.Caller, o.Method, o.Path, o.Status)
				h.Write(o.Req)
				h.Write(o.Resp)
			}
		}
		res.LogHash = hex.EncodeToString(h.Sum(nil)[:12])
		if len(res.Fatal) > 0 || spec.Trace {
			res.Events = s.Events
		}
		if spec.Trace && rc.W != nil && os.Getenv("VERIF_TRACEALL") != "" {
			for _, o := range rc.W.Net.Obs {
				res.Events = append(res.Events, Event{Seq: o.Seq, Kind: "http", Task: o.Caller, Label: fmt.Sprintf("%s %s %d req=%x resp=%x", o.Method, o.Path, o.Status, sha(o.Req)[:4], sha(o.Resp)[:4])})
			}
		}
		if spec.Trace || spec.Index%97 == 0 {
			res.Sample = sampleOf(rc)
		}
	}()
	prof.Run(rc)
}

func sampleOf(rc *RunCtx) []string {
	var out []string
	for _, e := range rc.S.Events {
		if e.Kind == "op" || e.Kind == "fault" || e.Kind == "crash" || e.Kind == "clock" || e.Kind == "violation" {
			out = append(out, e.Kind+":"+e.Label)
		}
		if len(out) >= 40 {
			break
		}
	}
	return out
}

// StateHash: abstract state = multiset of (quote states, proof-state counts) as the book sees it.
func (w *World) StateHash() string {
	h := sha256.New()
	names := make([]string, 0, len(w.Book.M))
	for n := range w.Book.M {
		names = append(names, n)
	}
	sort.Strings(names)
	for _, n := range names {
		m := w.Book.M[n]
		var spent, multi int
		for _, r := range m.Secrets {
			if len(r.Cons) > 0 {
				spent++
			}
			if len(r.Cons) > 1 {
				multi++
			}
		}
		fmt.Fprintf(h, "%s sigs=%d spent=%d multi=%d|", n, len(m.Sigs), spent, multi)
		for _, q := range m.MQOrder {
			mq := m.MQ[q]
			fmt.Fprintf(h, "mq %d %d %d %d|", mq.Amount, mq.Issued, len(mq.IssueSeqs), mq.Internal)
		}
		for _, q := range m.LQOrder {
			lq := m.LQ[q]
			fmt.Fprintf(h, "lq %d %d %s %d|", lq.Amount, lq.Reserve, lq.LastState, len(lq.Attempts))
		}
	}
	return hex.EncodeToString(h.Sum(nil)[:8])
}
