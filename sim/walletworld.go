package sim

import (
	"encoding/hex"
	"fmt"
	"os"
	"path/filepath"
	"sort"
	"strings"

	"github.com/elnosh/gonuts/cashu"
	"github.com/elnosh/gonuts/crypto"
	"github.com/elnosh/gonuts/wallet"
	wstorage "github.com/elnosh/gonuts/wallet/storage"
)

// WalletRec records what the wallet storage wrapper saw.
type WalletRec struct {
	Rs       map[string]bool   // blinding factors (lower-case hex) seen in stored / pending proofs
	Secrets  map[string]bool   // secrets of proofs the wallet stored
	Counters map[string]uint32 // last known counter per keyset (from IncrementKeysetCounter bookkeeping)
}

func newWalletRec() *WalletRec {
	return &WalletRec{Rs: map[string]bool{}, Secrets: map[string]bool{}, Counters: map[string]uint32{}}
}

// simWalletDB wraps the real bbolt storage: Yield -> fault decision -> inner call.
type simWalletDB struct {
	s     *Sim
	inc   *Inc
	inner wstorage.WalletDB
	rec   *WalletRec
	log   *[]SeamCall
}

func (d *simWalletDB) pre(label string) bool {
	inj := d.s.Yield(d.inc, "db", label)
	task := "driver"
	if t := d.s.CurrentTask(); t != nil {
		task = t.Name
	}
	*d.log = append(*d.log, SeamCall{d.s.Seq(), d.inc.Node, task, label, inj})
	return inj
}

func (d *simWalletDB) note(ps cashu.Proofs) {
	for _, p := range ps {
		d.rec.Secrets[p.Secret] = true
		if p.DLEQ != nil && p.DLEQ.R != "" {
			d.rec.Rs[strings.ToLower(p.DLEQ.R)] = true
		}
	}
}

func (d *simWalletDB) SaveMnemonicSeed(m string, s []byte) { d.inner.SaveMnemonicSeed(m, s) }
func (d *simWalletDB) GetSeed() []byte                     { return d.inner.GetSeed() }
func (d *simWalletDB) GetMnemonic() string                 { return d.inner.GetMnemonic() }

func (d *simWalletDB) SaveProofs(p cashu.Proofs) error {
	if d.pre(fmt.Sprintf("wdb.SaveProofs n=%d", len(p))) {
		return ErrInjectedDB
	}
	d.note(p)
	return d.inner.SaveProofs(p)
}
func (d *simWalletDB) GetProofs() cashu.Proofs {
	d.pre("wdb.GetProofs")
	return d.inner.GetProofs()
}
func (d *simWalletDB) GetProofsByKeysetId(id string) cashu.Proofs {
	d.pre("wdb.GetProofsByKeysetId")
	return d.inner.GetProofsByKeysetId(id)
}
func (d *simWalletDB) DeleteProof(s string) error {
	if d.pre("wdb.DeleteProof") {
		return ErrInjectedDB
	}
	return d.inner.DeleteProof(s)
}
func (d *simWalletDB) AddPendingProofs(p cashu.Proofs) error {
	if d.pre(fmt.Sprintf("wdb.AddPendingProofs n=%d", len(p))) {
		return ErrInjectedDB
	}
	d.note(p)
	return d.inner.AddPendingProofs(p)
}
func (d *simWalletDB) AddPendingProofsByQuoteId(p cashu.Proofs, q string) error {
	if d.pre(fmt.Sprintf("wdb.AddPendingProofsByQuoteId n=%d", len(p))) {
		return ErrInjectedDB
	}
	d.note(p)
	return d.inner.AddPendingProofsByQuoteId(p, q)
}
func (d *simWalletDB) GetPendingProofs() []wstorage.DBProof {
	d.pre("wdb.GetPendingProofs")
	return d.inner.GetPendingProofs()
}
func (d *simWalletDB) GetPendingProofsByQuoteId(q string) []wstorage.DBProof {
	d.pre("wdb.GetPendingProofsByQuoteId")
	return d.inner.GetPendingProofsByQuoteId(q)
}
func (d *simWalletDB) DeletePendingProofs(Ys []string) error {
	if d.pre(fmt.Sprintf("wdb.DeletePendingProofs n=%d", len(Ys))) {
		return ErrInjectedDB
	}
	return d.inner.DeletePendingProofs(Ys)
}
func (d *simWalletDB) DeletePendingProofsByQuoteId(q string) error {
	if d.pre("wdb.DeletePendingProofsByQuoteId") {
		return ErrInjectedDB
	}
	return d.inner.DeletePendingProofsByQuoteId(q)
}
func (d *simWalletDB) SaveKeyset(k *crypto.WalletKeyset) error {
	if d.pre("wdb.SaveKeyset " + k.Id) {
		return ErrInjectedDB
	}
	return d.inner.SaveKeyset(k)
}
func (d *simWalletDB) GetKeysets() crypto.KeysetsMap { return d.inner.GetKeysets() }
func (d *simWalletDB) GetKeyset(id string) *crypto.WalletKeyset {
	d.pre("wdb.GetKeyset")
	return d.inner.GetKeyset(id)
}
func (d *simWalletDB) IncrementKeysetCounter(id string, n uint32) error {
	if d.pre(fmt.Sprintf("wdb.IncrementKeysetCounter %s +%d", id, n)) {
		return ErrInjectedDB
	}
	return d.inner.IncrementKeysetCounter(id, n)
}
func (d *simWalletDB) GetKeysetCounter(id string) uint32 {
	d.pre("wdb.GetKeysetCounter")
	return d.inner.GetKeysetCounter(id)
}
func (d *simWalletDB) UpdateKeysetMintURL(o, n string) error {
	return d.inner.UpdateKeysetMintURL(o, n)
}
func (d *simWalletDB) SaveMintQuote(q wstorage.MintQuote) error {
	if d.pre("wdb.SaveMintQuote") {
		return ErrInjectedDB
	}
	return d.inner.SaveMintQuote(q)
}
func (d *simWalletDB) GetMintQuotes() []wstorage.MintQuote { return d.inner.GetMintQuotes() }
func (d *simWalletDB) GetMintQuoteById(id string) *wstorage.MintQuote {
	d.pre("wdb.GetMintQuoteById")
	return d.inner.GetMintQuoteById(id)
}
func (d *simWalletDB) SaveMeltQuote(q wstorage.MeltQuote) error {
	if d.pre("wdb.SaveMeltQuote") {
		return ErrInjectedDB
	}
	return d.inner.SaveMeltQuote(q)
}
func (d *simWalletDB) GetMeltQuotes() []wstorage.MeltQuote { return d.inner.GetMeltQuotes() }
func (d *simWalletDB) GetMeltQuoteById(id string) *wstorage.MeltQuote {
	d.pre("wdb.GetMeltQuoteById")
	return d.inner.GetMeltQuoteById(id)
}
func (d *simWalletDB) Close() error { return d.inner.Close() }

// StartWallet loads (or reloads) a wallet on its directory. Driver goroutine, quiet.
func (w *World) StartWallet(name, mintName string) (*WalletNode, error) {
	n := w.Wallets[name]
	if n == nil {
		n = &WalletNode{Name: name, Dir: filepath.Join(w.Dir, "wallet-"+name), Mint: "http://" + mintName, Rec: newWalletRec()}
		w.Wallets[name] = n
	}
	if n.Inc != nil && n.Inc.Alive {
		harnessf("wallet %s already running", name)
	}
	n.Epoch++
	inc := &Inc{Node: name, Epoch: n.Epoch, Alive: true}
	var wl *wallet.Wallet
	var err error
	func() {
		defer func() {
			if r := recover(); r != nil {
				err = fmt.Errorf("LoadWallet panicked: %v", r)
			}
		}()
		wl, err = wallet.LoadWallet(wallet.Config{WalletPath: n.Dir, CurrentMintURL: n.Mint})
	}()
	if err != nil {
		n.Epoch--
		return n, err
	}
	n.Inc = inc
	n.W = wl
	n.Inner = wl.VerifDB()
	n.Mnemonic = wl.Mnemonic()
	wl.VerifWrapDB(func(db wstorage.WalletDB) wstorage.WalletDB {
		return &simWalletDB{s: w.S, inc: inc, inner: db, rec: n.Rec, log: &w.SeamLog}
	})
	w.S.Log("node", "", fmt.Sprintf("wallet %s up epoch %d", name, n.Epoch))
	return n, nil
}

func (w *World) StopWallet(name string) {
	n := w.Wallets[name]
	if n == nil || n.Inc == nil || !n.Inc.Alive {
		return
	}
	w.S.CrashInc(n.Inc)
}

// WalletOp runs fn as a task of the wallet's incarnation and returns when it finished or the wallet died.
func (w *World) WalletOp(name, opname string, plans []*FaultPlan, fn func(wl *wallet.Wallet)) (crashed bool) {
	n := w.Wallets[name]
	if n == nil || n.W == nil || !n.Inc.Alive {
		return true
	}
	inc := n.Inc
	wl := n.W
	w.S.BeginEpisode(plans...)
	w.S.Run1(opname, inc, func() { fn(wl) })
	return !inc.Alive
}

// ---- token channel ----

// MakeToken serialises proofs the way `nutw send` does.
func MakeToken(proofs cashu.Proofs, mintURL string, v4, dleq bool) (string, error) {
	cp := make(cashu.Proofs, len(proofs))
	copy(cp, proofs)
	var tok cashu.Token
	if v4 {
		t, err := cashu.NewTokenV4(cp, mintURL, cashu.Sat, dleq)
		if err != nil {
			return "", err
		}
		tok = t
	} else {
		t, err := cashu.NewTokenV3(cp, mintURL, cashu.Sat, dleq)
		if err != nil {
			return "", err
		}
		tok = t
	}
	return tok.Serialize()
}

// ---- wallet state as the harness sees it (through the unwrapped storage) ----

type WalletView struct {
	Proofs  cashu.Proofs
	Pending []wstorage.DBProof
}

func (n *WalletNode) View() WalletView {
	return WalletView{Proofs: n.Inner.GetProofs(), Pending: n.Inner.GetPendingProofs()}
}

// MintState reads the state of Ys from the mint's tables through the unwrapped storage
// (no Lightning side effects).
func (w *World) MintState(mint string, Ys []string) map[string]string {
	out := map[string]string{}
	if len(Ys) == 0 {
		return out
	}
	node := w.Mints[mint]
	used, err := node.Inner.GetProofsUsed(Ys)
	if err != nil {
		harnessf("oracle read: %v", err)
	}
	pend, err := node.Inner.GetPendingProofs(Ys)
	if err != nil {
		harnessf("oracle read: %v", err)
	}
	for _, y := range Ys {
		out[y] = "UNSPENT"
	}
	for _, p := range pend {
		out[p.Y] = "PENDING"
	}
	for _, p := range used {
		out[p.Y] = "SPENT"
	}
	return out
}

func mintNameOfURL(u string) string { return strings.TrimPrefix(u, "http://") }

// WalletSeed returns the BIP39 seed of the wallet (from its own storage).
func (n *WalletNode) Seed() []byte {
	// copy: bbolt hands out a slice into its memory map that is only valid for a moment
	return append([]byte(nil), n.Inner.GetSeed()...)
}

// ---- NUT-13 table: the harness's own derivation of the wallet's deterministic outputs ----

type detOut struct {
	Keyset  string
	Counter uint32
	Secret  string
	R       string // hex
	B_      string
}

type DetTable struct {
	seed    []byte
	byB     map[string]*detOut
	bySec   map[string]*detOut
	byR     map[string]*detOut
	upTo    map[string]uint32 // per keyset: derived for counters [0, upTo)
	Entries map[string][]*detOut
}

func NewDetTable(seed []byte) *DetTable {
	return &DetTable{seed: seed, byB: map[string]*detOut{}, bySec: map[string]*detOut{}, byR: map[string]*detOut{}, upTo: map[string]uint32{}, Entries: map[string][]*detOut{}}
}

func (t *DetTable) Extend(keyset string, upTo uint32) {
	if _, err := hex.DecodeString(keyset); err != nil || len(keyset) != 16 {
		return
	}
	for c := t.upTo[keyset]; c < upTo; c++ {
		sec, r, err := hNut13(t.seed, keyset, c)
		if err != nil {
			return
		}
		B_, err := hBlind(sec, r)
		if err != nil {
			continue
		}
		e := &detOut{Keyset: keyset, Counter: c, Secret: sec, R: scalarHex(r), B_: B_}
		t.byB[B_] = e
		t.bySec[sec] = e
		t.byR[e.R] = e
		t.Entries[keyset] = append(t.Entries[keyset], e)
	}
	if upTo > t.upTo[keyset] {
		t.upTo[keyset] = upTo
	}
}

func sortedKeys[T any](m map[string]T) []string {
	ks := make([]string, 0, len(m))
	for k := range m {
		ks = append(ks, k)
	}
	sort.Strings(ks)
	return ks
}

func removeDir(p string) { os.RemoveAll(p) }
