package sim

// WalletRec records what the wallet storage wrapper saw (filled in walletwrap.go).
type WalletRec struct {
	Rs       map[string]bool // blinding factors (hex) seen in stored proofs
	Counters map[string]uint32
}
