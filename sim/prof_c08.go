package sim

import (
	"encoding/base64"
	"encoding/hex"
	"encoding/json"
	"fmt"
	"strings"

	"github.com/elnosh/gonuts/wallet"
)

// C08 — unlinkability: the mint never receives a blinding factor. Byte-level taint check on every
// request body and URL any wallet sends.

func init() {
	Register(&Profile{Prop: "C08", Fatal: []string{"C08."}, Run: runC08, Core: coreC08})
}

func coreC08(tier string) []RunSpec {
	var out []RunSpec
	// one scenario per wallet path, with DLEQ-carrying and legacy (no DLEQ) mints
	for legacy := 0; legacy < 2; legacy++ {
		for pi := range wwKinds {
			out = append(out, RunSpec{Profile: "core:path:" + wwKinds[pi], Params: map[string]int{"path": pi, "legacy": legacy}})
		}
		out = append(out, RunSpec{Profile: "core:path:restore", Params: map[string]int{"path": 100, "legacy": legacy}})
		for k := 0; k < 6 && legacy == 0; k++ {
			out = append(out, RunSpec{Profile: "core:restore-then-continue", Params: map[string]int{"restcont": 1, "k": k, "legacy": legacy}})
		}
		for k := 1; k <= 4; k++ {
			for fk := 0; fk < 2; fk++ {
				out = append(out, RunSpec{Profile: "core:melt-retry-after-lost-message", Params: map[string]int{"meltretry": 1, "k": k, "fk": fk, "legacy": legacy}})
			}
		}
		// a mint-side storage error at the k-th storage call of a receive / send / melt / reclaim
		for opk := 0; opk < 4 && legacy == 0; opk++ {
			for k := 1; k <= 8; k++ {
				out = append(out, RunSpec{Profile: "core:mint-storage-error", Params: map[string]int{"mde": k, "mdeop": opk, "legacy": legacy}})
			}
		}
		// a melt that pays another wallet's mint quote at the same mint (settled internally, no fee reserve)
		for k := 0; k < 3; k++ {
			out = append(out, RunSpec{Profile: "core:internal-melt", Params: map[string]int{"imelt": 1, "legacy": legacy, "k": k}})
		}
		// SIG_ALL P2PK token from an untrusted mint received with swap-to-trusted: the wallet first
		// swaps at the untrusted mint and melts the fresh proofs there
		for k := 0; k < 2; k++ {
			out = append(out, RunSpec{Profile: "core:sigall-swap-to-trusted", Params: map[string]int{"sigallcross": 1, "legacy": legacy, "k": k}})
		}
	}
	return out
}

type taintSet struct {
	rs      map[string]string // lower hex -> origin
	secrets map[string]string
}

// collectTaint gathers every blinding factor and deterministic secret the harness knows of.
func (ww *WW) collectTaint() *taintSet {
	t := &taintSet{rs: map[string]string{}, secrets: map[string]string{}}
	for _, w := range ww.Wallets {
		n := ww.node(w)
		for r := range n.Rec.Rs {
			t.rs[r] = w + ":stored-dleq"
		}
		// independent NUT-13 derivation for all counters up to the stored counter + margin
		det := ww.Det[w]
		if det == nil {
			det = NewDetTable(n.Seed())
			ww.Det[w] = det
		}
		for _, m := range ww.Mints {
			for id := range ww.W.Book.Mint(m).Keysets {
				ctr := uint32(0)
				if ks := n.Inner.GetKeyset(id); ks != nil {
					ctr = ks.Counter
				}
				det.Extend(id, ctr+12)
			}
		}
		for r, e := range det.byR {
			t.rs[r] = fmt.Sprintf("%s:nut13 %s/%d", w, e.Keyset, e.Counter)
		}
		for s, e := range det.bySec {
			t.secrets[s] = fmt.Sprintf("%s:nut13 %s/%d", w, e.Keyset, e.Counter)
		}
	}
	for _, tok := range ww.Tokens {
		for _, p := range tok.Proofs {
			if p.DLEQ != nil && p.DLEQ.R != "" {
				t.rs[strings.ToLower(p.DLEQ.R)] = tok.From + ":token"
			}
		}
	}
	return t
}

// ScanRequests checks all wallet requests from index `from` on.
func (ww *WW) ScanRequests(from int) int {
	W := ww.W
	t := ww.collectTaint()
	for i := from; i < len(W.Net.Obs); i++ {
		o := W.Net.Obs[i]
		if !strings.HasPrefix(o.From, "w") {
			continue
		}
		ww.rc.S.Probe("c08_request_scanned")
		ep := o.Path
		if j := strings.LastIndexByte(ep, '/'); j > 12 {
			ep = ep[:j]
		}
		hay := strings.ToLower(string(o.Req) + " " + o.Path)
		var body any
		json.Unmarshal(o.Req, &body)
		for r, origin := range t.rs {
			if !strings.Contains(hay, r) {
				// raw bytes / base64 forms
				rb, _ := hex.DecodeString(r)
				if len(rb) == 0 || !(strings.Contains(string(o.Req), string(rb)) || strings.Contains(string(o.Req), base64.StdEncoding.EncodeToString(rb)) || strings.Contains(string(o.Req), base64.RawURLEncoding.EncodeToString(rb))) {
					continue
				}
			}
			where := "raw"
			jsonStrings(body, "", func(path, s string) {
				if strings.ToLower(s) == r {
					where = path
				}
			})
			W.Book.Violate("C08.blinding_factor_sent", o.Method+" "+ep+" "+where, "%s sent a blinding factor (%s) to the mint in %s %s at %s", o.From, origin, o.Method, ep, where)
		}
		if strings.Contains(hay, "\"r\"") {
			ww.rc.S.Probe("c08_request_with_r_field")
		}
		// secrets: only as inputs[].secret of a swap or melt
		jsonStrings(body, "", func(path, s string) {
			if origin, ok := t.secrets[s]; ok {
				allowed := path == ".inputs[].secret" && (ep == "/v1/swap" || ep == "/v1/melt/bolt11")
				if !allowed {
					W.Book.Violate("C08.secret_sent", o.Method+" "+ep+" "+path, "%s sent the secret of a deterministic output (%s) in %s %s at %s", o.From, origin, o.Method, ep, path)
				}
			}
		})
		if ep == "/v1/swap" || ep == "/v1/melt/bolt11" {
			ww.rc.S.Probe("c08_spend_request_scanned")
		}
	}
	return len(W.Net.Obs)
}

// positiveControl: the scanner must find r in a token with DLEQ that a wallet returned to its caller.
func (ww *WW) positiveControl() {
	t := ww.collectTaint()
	for _, tok := range ww.Tokens {
		for _, p := range tok.Proofs {
			if p.DLEQ != nil && p.DLEQ.R != "" {
				b, _ := json.Marshal(p)
				found := false
				for r := range t.rs {
					if strings.Contains(strings.ToLower(string(b)), r) {
						found = true
					}
				}
				if !found {
					harnessf("taint scanner does not find r in a proof that carries it")
				}
				ww.rc.S.Probe("c08_positive_control")
				return
			}
		}
	}
}

func stripDLEQ(path string, body []byte) []byte {
	if !(strings.HasPrefix(path, "/v1/swap") || strings.HasPrefix(path, "/v1/mint/bolt11") || strings.HasPrefix(path, "/v1/restore")) {
		return body
	}
	var m map[string]any
	if json.Unmarshal(body, &m) != nil {
		return body
	}
	sigs, _ := m["signatures"].([]any)
	for _, s := range sigs {
		if sm, ok := s.(map[string]any); ok {
			delete(sm, "dleq")
		}
	}
	out, err := json.Marshal(m)
	if err != nil {
		return body
	}
	return out
}

func runC08(rc *RunCtx) {
	T := rc.T
	legacy := rc.P("legacy", -1)
	if legacy < 0 {
		legacy = T.Pick("cfg.legacy", 3, 1)
	}
	nm := 1 + T.Choose("cfg.mints", 2)
	if rc.P("sigallcross", 0) == 1 {
		nm = 2
	}
	path, hasPath := rc.Spec.Params["path"]
	if hasPath && (path == 7 || path == 2) {
		nm = 2
	}
	fees := []uint{c17Fees[T.Choose("cfg.fee", 3)]}
	if nm == 2 {
		fees = append(fees, c17Fees[T.Choose("cfg.fee2", 3)])
	}
	ln := LNConfig{FeePolicy: 1 + T.Choose("cfg.feepol", 3), PayOutcomeMix: T.Choose("cfg.mix", 2)}
	ww := rc.NewWalletWorld(ln, fees, 2+T.Choose("cfg.wallets", 2))
	if legacy == 1 {
		rc.W.Net.RespHook = stripDLEQ
	}
	for i := range ww.Wallets {
		ww.step = -1 - i
		ww.StepMint()
	}
	scanned := ww.ScanRequests(0)
	if rc.P("restcont", 0) == 1 {
		// a wallet restored from its seed (its proofs carry no DLEQ) continues: it mints (proofs
		// with DLEQ) and then spends old and new proofs together in melts and swapping sends
		ww.step = 0
		w := ww.Wallets[0]
		ww.restoreWallet(w, true, "restore-then-continue")
		rw := ww.Wallets[0]
		mint := mintNameOfURL(ww.node(rw).Mint)
		mintInto := func(amount uint64) {
			ww.op("w.mint")
			ww.W.WalletOp(rw, ww.name("mint."+rw), nil, func(wl *wallet.Wallet) {
				q, e := wl.RequestMint(amount, ww.mintURL(mint))
				if e != nil {
					return
				}
				if mq := ww.W.Book.Mint(mint).MQ[q.Quote]; mq != nil {
					ww.W.LN.PayExternal(mq.Hash)
				}
				wl.MintTokens(q.Quote)
			})
		}
		for round := 0; round < 3; round++ {
			ww.step++
			mintInto(uint64(37 + 20*round + rc.P("k", 0)))
			bal := ww.balanceAt(rw, mint)
			if bal < 16 {
				continue
			}
			// a melt of most of the balance: old (no DLEQ) and new (DLEQ) proofs in one request
			inv := ww.W.LN.NewExternalInvoice((bal - bal/4) * 1000)
			ww.op("w.melt")
			ww.W.WalletOp(rw, ww.name("melt."+rw), nil, func(wl *wallet.Wallet) {
				if q, e := wl.RequestMeltQuote(inv.Bolt11, ww.mintURL(mint)); e == nil {
					wl.Melt(q.Quote)
				}
			})
			scanned = ww.ScanRequests(scanned)
			// and a send that has to swap
			if rest := ww.balanceAt(rw, mint); rest > 3 {
				ww.op("w.send fees=true")
				ww.W.WalletOp(rw, ww.name("send."+rw), nil, func(wl *wallet.Wallet) { wl.Send(rest-rest/3-1, ww.mintURL(mint), true) })
				scanned = ww.ScanRequests(scanned)
			}
		}
		ww.Settle()
		ww.ScanRequests(scanned)
		ww.positiveControl()
		rc.S.Probe("c08_restore_then_continue")
		rc.Nontrivial = rc.S.Stats["c08_spend_request_scanned"] > 0
		return
	}
	if rc.P("meltretry", 0) == 1 {
		w := ww.Wallets[0]
		ww.step = 0
		ww.faultOp(w, "melt", rc.P("k", 1), []string{"resploss", "reqloss"}[rc.P("fk", 0)])
		if qs := ww.PendQ[w]; len(qs) > 0 {
			qid := qs[len(qs)-1]
			ww.op("w.remelt after lost message")
			ww.W.WalletOp(w, ww.name("remelt."+w), nil, func(wl *wallet.Wallet) { wl.Melt(qid) })
			rc.S.Probe("c08_melt_fault_then_retry")
		}
		ww.Settle()
		ww.ScanRequests(scanned)
		ww.positiveControl()
		rc.Nontrivial = rc.S.Stats["c08_spend_request_scanned"] > 0
		return
	}
	if rc.P("sigallcross", 0) == 1 {
		c17SigAllCrossMint(ww, uint64(16+16*rc.P("k", 0)))
		ww.Settle()
		ww.ScanRequests(scanned)
		ww.positiveControl()
		rc.Nontrivial = rc.S.Stats["c08_spend_request_scanned"] > 0
		return
	}
	// weights:       mint send receive sendlocked melt resolvemelt reclaim mintswap rotate
	weights := []int{2, 5, 6, 3, 3, 2, 3, 1, 1, 1, 0, 1} // ... remelt clock reload
	rc.StepLoop(3, 14, func(i int) {
		ww.step = i
		if hasPath {
			if path == 100 {
				ww.StepSend()
				ww.StepRestore(i%2 == 0)
				ww.StepMint()
				ww.StepMelt()
			} else {
				// make sure there is something to receive / reclaim / resolve
				if wwKinds[path] == "receive" || wwKinds[path] == "reclaim" {
					ww.StepSend()
				}
				if wwKinds[path] == "receive" && i%2 == 1 {
					ww.StepSendLocked()
				}
				ww.Step(path)
			}
		} else if rc.P("imelt", 0) == 1 || T.Chance("imelt", 1, 10) {
			ww.StepInternalMelt()
		} else if T.Chance("meltretry", 1, 8) {
			// a melt whose request or response gets lost (the wallet sees a connection error and keeps
			// the proofs as pending), then Melt is called again for the same quote
			w := ww.pickWallet()
			fk := []string{"resploss", "reqloss"}[T.Choose("meltretry.kind", 2)]
			if ww.faultOp(w, "melt", 1+T.Choose("meltretry.k", 4), fk) {
				rc.S.Probe("c08_melt_fault_then_retry")
			}
			if qs := ww.PendQ[w]; len(qs) > 0 {
				qid := qs[len(qs)-1]
				ww.op("w.remelt after lost message")
				ww.W.WalletOp(w, ww.name("remelt."+w), nil, func(wl *wallet.Wallet) { wl.Melt(qid) })
			}
		} else if T.Chance("mintdberr", 1, 6) || rc.P("mde", 0) > 0 {
			// the mint meets a storage error while it serves a wallet operation (answered with the generic
			// error): whatever the wallet sends next - a retry included - is scanned like everything else
			k := 1 + T.Choose("mintdberr.k", 10)
			if v := rc.P("mde", 0); v > 0 {
				k = v
			}
			opk := T.Choose("mintdberr.op", 4)
			if v, ok := rc.Spec.Params["mdeop"]; ok {
				opk = v
			}
			if opk == 0 || opk == 3 {
				ww.forceDLEQ = true
				ww.StepSend() // something to receive / reclaim, with DLEQ data in the token
				ww.forceDLEQ = false
			}
			for _, mn := range ww.Mints {
				ww.NextPlans = append(ww.NextPlans, &FaultPlan{Node: mn, Kind: "db_error", SeamKind: "db", Pos: k})
			}
			switch opk {
			case 0:
				ww.StepReceive()
			case 1:
				ww.StepSend()
			case 2:
				ww.StepMelt()
			case 3:
				ww.StepReclaim()
			}
			ww.NextPlans = nil
			rc.S.Probe("c08_mint_storage_error_during_wallet_op")
		} else if T.Chance("restore", 1, 8) {
			// sometimes the restored wallet (whose proofs carry no DLEQ) takes over and continues
			ww.StepRestore(T.Chance("restore.replace", 1, 2))
		} else {
			ww.Step(T.Pick("step.kind", weights...))
		}
		scanned = ww.ScanRequests(scanned)
	})
	ww.Settle()
	ww.ScanRequests(scanned)
	ww.positiveControl()
	rc.Nontrivial = rc.S.Stats["c08_spend_request_scanned"] > 0
}
