package sim

import (
	"crypto/rand"
	"crypto/sha256"
	"encoding/hex"
	"encoding/json"
	"fmt"
	"strconv"
	"strings"
	"time"

	"github.com/btcsuite/btcd/btcec/v2"
	"github.com/btcsuite/btcd/btcec/v2/schnorr"
)

// Lock actor and the independent three-valued NUT-10/11/14 evaluator (DESIGN.md §9 C12/C13).
// Secrets are serialised by the harness's own code.

type LockCfg struct {
	HTLC     bool
	Data     string // pubkey hex (P2PK) or hash hex (HTLC)
	SigFlag  string // "", "SIG_INPUTS", "SIG_ALL"
	NSigs    int    // -1 = tag absent
	Pubkeys  []int  // indices into the key ring
	Locktime int64  // 0 = absent
	Refund   []int
	LockKey  int    // index of the lock key (P2PK)
	Preimage string // HTLC
	HashKind int    // 0 well-formed, 1 short, 2 non-hex
	TagOrder int    // 0 sigflag first (the library's order), 1 reversed, 2 sigflag last (NUT-10 fixes no order)
}

type KeyRing struct {
	Priv []*btcec.PrivateKey
}

func NewKeyRing(n int) *KeyRing {
	kr := &KeyRing{}
	for i := 0; i < n; i++ {
		var b [32]byte
		rand.Read(b[:])
		p, _ := btcec.PrivKeyFromBytes(b[:])
		kr.Priv = append(kr.Priv, p)
	}
	return kr
}

func (kr *KeyRing) PubHex(i int) string {
	return hex.EncodeToString(kr.Priv[i].PubKey().SerializeCompressed())
}

// Secret builds the NUT-10 secret string.
func (c *LockCfg) Secret(kr *KeyRing) string {
	kind := "P2PK"
	if c.HTLC {
		kind = "HTLC"
	}
	var tags [][]string
	if c.SigFlag != "" {
		tags = append(tags, []string{"sigflag", c.SigFlag})
	}
	if c.NSigs >= 0 {
		tags = append(tags, []string{"n_sigs", strconv.Itoa(c.NSigs)})
	}
	if len(c.Pubkeys) > 0 {
		t := []string{"pubkeys"}
		for _, i := range c.Pubkeys {
			t = append(t, kr.PubHex(i))
		}
		tags = append(tags, t)
	}
	if c.Locktime != 0 {
		tags = append(tags, []string{"locktime", strconv.FormatInt(c.Locktime, 10)})
	}
	if len(c.Refund) > 0 {
		t := []string{"refund"}
		for _, i := range c.Refund {
			t = append(t, kr.PubHex(i))
		}
		tags = append(tags, t)
	}
	switch c.TagOrder {
	case 1:
		for i, j := 0, len(tags)-1; i < j; i, j = i+1, j-1 {
			tags[i], tags[j] = tags[j], tags[i]
		}
	case 2:
		if len(tags) > 1 && tags[0][0] == "sigflag" {
			tags = append(tags[1:], tags[0])
		}
	}
	if tags == nil {
		tags = [][]string{}
	}
	body, _ := json.Marshal(map[string]any{"nonce": randHex(16), "data": c.Data, "tags": tags})
	return fmt.Sprintf(`["%s",%s]`, kind, string(body))
}

func (c *LockCfg) String() string {
	k := "P2PK"
	if c.HTLC {
		k = fmt.Sprintf("HTLC(hash%d)", c.HashKind)
	}
	return fmt.Sprintf("%s flag=%q n=%d pk=%v lt=%d refund=%v", k, c.SigFlag, c.NSigs, c.Pubkeys, c.Locktime, c.Refund)
}

// SignMsg: BIP-340 over sha256(msg). variant > 0 gives a different valid signature by the same key.
func SignMsg(priv *btcec.PrivateKey, msg []byte, variant int) string {
	h := sha256.Sum256(msg)
	var sig *schnorr.Signature
	var err error
	if variant == 0 {
		sig, err = schnorr.Sign(priv, h[:])
	} else {
		var aux [32]byte
		aux[0] = byte(variant)
		aux[31] = 0x5a
		sig, err = schnorr.Sign(priv, h[:], schnorr.CustomNonce(aux))
	}
	if err != nil {
		harnessf("sign: %v", err)
	}
	return hex.EncodeToString(sig.Serialize())
}

func validSig(sigHex string, msg []byte, pubHex string) bool {
	sb, err := hex.DecodeString(sigHex)
	if err != nil {
		return false
	}
	sig, err := schnorr.ParseSignature(sb)
	if err != nil {
		return false
	}
	pb, err := hex.DecodeString(pubHex)
	if err != nil {
		return false
	}
	pk, err := btcec.ParsePubKey(pb)
	if err != nil {
		return false
	}
	h := sha256.Sum256(msg)
	return sig.Verify(h[:], pk)
}

// ---- evaluator ----

type Verdict int

const (
	Unspecified Verdict = iota
	MustAccept
	MustReject
)

func (v Verdict) String() string { return [...]string{"unspecified", "must-accept", "must-reject"}[v] }

type parsedLock struct {
	kind     string
	data     string
	sigAll   bool
	nsigs    int // 0 = absent
	pubkeys  []string
	locktime int64
	refund   []string
	ok       bool
}

// parseLock reads a secret the way the NUT-10/11 texts describe it. ok=false: not a NUT-10 P2PK/HTLC secret
// or tags the harness does not want to judge.
func parseLock(secret string) parsedLock {
	var raw []json.RawMessage
	var p parsedLock
	if json.Unmarshal([]byte(secret), &raw) != nil || len(raw) != 2 {
		return p
	}
	if json.Unmarshal(raw[0], &p.kind) != nil || (p.kind != "P2PK" && p.kind != "HTLC") {
		return p
	}
	var body struct {
		Data string     `json:"data"`
		Tags [][]string `json:"tags"`
	}
	if json.Unmarshal(raw[1], &body) != nil {
		return p
	}
	p.data = body.Data
	for _, t := range body.Tags {
		if len(t) < 2 {
			return p
		}
		switch t[0] {
		case "sigflag":
			if t[1] == "SIG_ALL" {
				p.sigAll = true
			} else if t[1] != "SIG_INPUTS" {
				return p
			}
		case "n_sigs":
			n, err := strconv.Atoi(t[1])
			if err != nil || n < 0 {
				return p
			}
			p.nsigs = n
		case "pubkeys":
			p.pubkeys = t[1:]
		case "locktime":
			n, err := strconv.ParseInt(t[1], 10, 64)
			if err != nil {
				return p
			}
			p.locktime = n
		case "refund":
			p.refund = t[1:]
		}
	}
	p.ok = true
	return p
}

type witnessView struct {
	sigs     []string
	preimage string
	parsed   bool
}

func parseWitness(w string) witnessView {
	var v struct {
		Signatures []string `json:"signatures"`
		Preimage   string   `json:"preimage"`
	}
	if w == "" || json.Unmarshal([]byte(w), &v) != nil {
		return witnessView{}
	}
	return witnessView{sigs: v.Signatures, preimage: v.Preimage, parsed: true}
}

func hasDupStrings(s []string) bool {
	m := map[string]bool{}
	for _, x := range s {
		if m[x] {
			return true
		}
		m[x] = true
	}
	return false
}

// distinctSigners: how many distinct keys of `keys` have at least one valid signature over msg.
func distinctSigners(sigs []string, msg []byte, keys []string) int {
	n := 0
	seen := map[string]bool{}
	for _, k := range keys {
		if seen[k] {
			continue
		}
		seen[k] = true
		for _, s := range sigs {
			if validSig(s, msg, k) {
				n++
				break
			}
		}
	}
	return n
}

// authorised keys and threshold before locktime
func (p parsedLock) authorised() (keys []string, threshold int, judgeable bool) {
	threshold = 1
	if p.nsigs > 0 {
		threshold = p.nsigs
	}
	if p.kind == "P2PK" {
		keys = []string{p.data}
		if p.nsigs > 0 {
			if len(p.pubkeys) == 0 {
				return nil, 0, false // n_sigs present but pubkeys empty: unspecified
			}
			keys = append(keys, p.pubkeys...)
		}
		return keys, threshold, true
	}
	// HTLC: listed keys only, and only when a threshold is set
	if p.nsigs > 0 {
		return p.pubkeys, threshold, true
	}
	if len(p.pubkeys) > 0 {
		return nil, 0, false // pubkeys without n_sigs on an HTLC: the statement is silent
	}
	return nil, 0, true
}

// EvalInput judges one locked input at mint time now (SIG_INPUTS semantics; SIG_ALL adds request-level rules).
func EvalInput(secret, witness string, now int64) (Verdict, string) {
	if len(secret) > 512 {
		return MustReject, "secret longer than 512 bytes"
	}
	p := parseLock(secret)
	if !p.ok {
		return Unspecified, "tags not judged"
	}
	w := parseWitness(witness)
	msg := []byte(secret)
	if p.locktime > 0 {
		if now == p.locktime {
			return Unspecified, "t == locktime"
		}
		if now > p.locktime {
			if len(p.refund) == 0 {
				return MustAccept, "after locktime, no refund key: anyone can spend"
			}
			if distinctSigners(w.sigs, msg, p.refund) >= 1 {
				return MustAccept, "after locktime, refund key signed"
			}
			return MustReject, "after locktime, no valid refund-key signature"
		}
	}
	keys, threshold, ok := p.authorised()
	if !ok {
		return Unspecified, "threshold without keys / keys without threshold"
	}
	if p.kind == "HTLC" {
		hb, err := hex.DecodeString(p.data)
		if err != nil || len(hb) != 32 {
			return MustReject, "lock value is not a 32-byte hex hash"
		}
		pre, err := hex.DecodeString(w.preimage)
		if err != nil || !w.parsed {
			return MustReject, "preimage missing or not hex"
		}
		h := sha256.Sum256(pre)
		if hex.EncodeToString(h[:]) != strings.ToLower(p.data) {
			return MustReject, "wrong preimage"
		}
		if p.nsigs == 0 {
			return MustAccept, "right preimage, no threshold"
		}
	}
	n := distinctSigners(w.sigs, msg, keys)
	if n >= threshold {
		if hasDupStrings(w.sigs) {
			return Unspecified, "enough distinct signers but the witness repeats a signature"
		}
		return MustAccept, fmt.Sprintf("%d distinct authorised signers >= %d", n, threshold)
	}
	return MustReject, fmt.Sprintf("%d distinct authorised signers < %d", n, threshold)
}

// EvalSwap judges a whole swap request (inputs with secrets/witnesses, outputs with B_/witness).
func EvalSwap(ins []JProof, outs []JOutput, now int64) (Verdict, string) {
	anySigAll := false
	var first parsedLock
	for _, in := range ins {
		p := parseLock(in.Secret)
		if p.ok && p.sigAll {
			anySigAll = true
		}
	}
	verdict := MustAccept
	why := "all inputs acceptable"
	for i, in := range ins {
		p := parseLock(in.Secret)
		if !p.ok {
			if strings.HasPrefix(strings.TrimSpace(in.Secret), "[") {
				return Unspecified, "unparsed NUT-10-like secret"
			}
			continue // plain proof
		}
		v, w := EvalInput(in.Secret, in.Witness, now)
		switch v {
		case MustReject:
			return MustReject, fmt.Sprintf("input %d: %s", i, w)
		case Unspecified:
			verdict, why = Unspecified, fmt.Sprintf("input %d: %s", i, w)
		}
	}
	if !anySigAll {
		return verdict, why
	}
	// SIG_ALL rules
	set := false
	for i, in := range ins {
		p := parseLock(in.Secret)
		if !p.ok || !p.sigAll {
			return MustReject, fmt.Sprintf("input %d is not SIG_ALL while another input is", i)
		}
		if p.locktime > 0 && now >= p.locktime {
			return Unspecified, "SIG_ALL after locktime"
		}
		if !set {
			first, set = p, true
			continue
		}
		if p.kind != first.kind || p.nsigs != first.nsigs || strings.Join(p.pubkeys, ",") != strings.Join(first.pubkeys, ",") || (p.kind == "P2PK" && p.data != first.data) {
			return MustReject, "SIG_ALL inputs with different conditions"
		}
		if p.kind == "HTLC" && p.data != first.data {
			return Unspecified, "SIG_ALL HTLC inputs with different hashes"
		}
	}
	keys, threshold, ok := first.authorised()
	if !ok || (first.kind == "HTLC" && len(keys) == 0) {
		return Unspecified, "SIG_ALL without listed keys"
	}
	for i, o := range outs {
		bb, err := hex.DecodeString(o.B_)
		if err != nil {
			return Unspecified, "B_ not hex"
		}
		w := parseWitness(o.Witness)
		if first.kind == "HTLC" {
			pre, err := hex.DecodeString(w.preimage)
			h := sha256.Sum256(pre)
			if err != nil || !w.parsed || hex.EncodeToString(h[:]) != strings.ToLower(first.data) {
				return MustReject, fmt.Sprintf("output %d lacks the preimage", i)
			}
		}
		if n := distinctSigners(w.sigs, bb, keys); n < threshold {
			return MustReject, fmt.Sprintf("output %d has %d valid signatures over its B_, %d required", i, n, threshold)
		}
		if hasDupStrings(w.sigs) {
			verdict, why = Unspecified, "output witness repeats a signature"
		}
	}
	return verdict, why
}

// EvalMelt: SIG_ALL inputs cannot be melted; otherwise every input judged on its own.
func EvalMelt(ins []JProof, now int64) (Verdict, string) {
	verdict, why := MustAccept, "all inputs acceptable"
	for i, in := range ins {
		p := parseLock(in.Secret)
		if !p.ok {
			continue
		}
		if p.sigAll {
			return MustReject, fmt.Sprintf("input %d is SIG_ALL: cannot be melted", i)
		}
		v, w := EvalInput(in.Secret, in.Witness, now)
		if v == MustReject {
			return MustReject, fmt.Sprintf("input %d: %s", i, w)
		}
		if v == Unspecified {
			verdict, why = Unspecified, w
		}
	}
	return verdict, why
}

func nowUnix() int64 { return time.Now().Unix() }
