package sim

import (
	"time"

	"github.com/elnosh/gonuts/cashu"
	"github.com/elnosh/gonuts/cashu/nuts/nut11"
	"github.com/elnosh/gonuts/wallet"
)

// C17 — wallet balance is truthful and no value is lost against an honest mint.

func init() {
	Register(&Profile{Prop: "C17", Fatal: []string{"C17."}, Run: runC17, Core: coreC17})
}

func coreC17(tier string) []RunSpec {
	var out []RunSpec
	for _, fee := range []int{0, 1, 2} {
		for nm := 1; nm <= 2; nm++ {
			for k := 0; k < 3; k++ {
				out = append(out, RunSpec{Profile: "core:history", Params: map[string]int{"fee": fee, "mints": nm, "k": k}})
			}
		}
	}
	out = append(out, RunSpec{Profile: "core:sigall-crossmint", Params: map[string]int{"scenario": 1, "fee": 0, "fee2": 0, "mints": 2}})
	out = append(out, RunSpec{Profile: "core:sigall-crossmint-pending-again", Params: map[string]int{"scenario": 2, "fee": 0, "fee2": 0, "mints": 2}})
	for k := 0; k < 6; k++ {
		out = append(out, RunSpec{Profile: "core:rotation-then-reload", Params: map[string]int{"scenario": 4, "fee": k % 3, "mints": 1, "k": k}})
	}
	for k := 0; k < 8; k++ {
		out = append(out, RunSpec{Profile: "core:mixed-keysets-same-fee", Params: map[string]int{"scenario": 5, "fee": 1, "mints": 1, "k": k}})
	}
	for k := 0; k < 6; k++ {
		out = append(out, RunSpec{Profile: "core:reclaim-first-after-rotation", Params: map[string]int{"scenario": 8, "fee": k % 3, "mints": 1, "k": k}})
	}
	for k := 0; k < 6; k++ {
		out = append(out, RunSpec{Profile: "core:failed-pending-melt-reclaimed-first", Params: map[string]int{"scenario": 7, "fee": k % 3, "mints": 1, "k": k}})
	}
	for k := 0; k < 6; k++ {
		out = append(out, RunSpec{Profile: "core:reclaim-while-melt-pending", Params: map[string]int{"scenario": 9, "fee": k % 3, "mints": 1, "k": k}})
	}
	for k := 0; k < 4; k++ {
		out = append(out, RunSpec{Profile: "core:melt-pending-past-expiry", Params: map[string]int{"scenario": 3, "fee": k % 3, "mints": 1, "k": k}})
	}
	return out
}

var c17Fees = []uint{0, 100, 1000}

// wallet-level step kinds
var wwKinds = []string{"mint", "send", "receive", "sendlocked", "melt", "resolvemelt", "reclaim", "mintswap", "rotate", "remelt", "clock", "reload"}

func (ww *WW) Step(kind int) {
	switch wwKinds[kind] {
	case "mint":
		ww.StepMint()
	case "send":
		ww.StepSend()
	case "receive":
		ww.StepReceive()
	case "sendlocked":
		ww.StepSendLocked()
	case "melt":
		ww.StepMelt()
	case "resolvemelt":
		ww.StepResolveMelt()
	case "reclaim":
		ww.StepReclaim()
	case "mintswap":
		ww.StepMintSwap()
	case "rotate":
		ww.StepRotate([]uint64{0, 100, 1000})
	case "remelt":
		ww.StepRemelt()
	case "clock":
		ww.StepClock()
	case "reload":
		ww.StepReload()
	}
}

func runC17(rc *RunCtx) {
	T := rc.T
	fi := rc.P("fee", -1)
	if fi < 0 {
		fi = T.Choose("cfg.fee", 3)
	}
	nm := rc.P("mints", -1)
	if nm < 0 {
		nm = 1 + T.Choose("cfg.mints", 2)
	}
	fees := []uint{c17Fees[fi]}
	if nm == 2 {
		f2 := T.Choose("cfg.fee2", 3)
		if v, ok := rc.Spec.Params["fee2"]; ok {
			f2 = v
		}
		fees = append(fees, c17Fees[f2])
	}
	ln := LNConfig{FeePolicy: 1 + T.Choose("cfg.feepol", 3), PayOutcomeMix: T.Choose("cfg.mix", 2)}
	ww := rc.NewWalletWorld(ln, fees, 2+T.Choose("cfg.wallets", 2))
	ww.Strict = ln.PayOutcomeMix == 0
	ww.NoFaults = true
	// initial funds
	for i := range ww.Wallets {
		ww.step = -1 - i
		ww.StepMint()
	}
	ww.CheckWallets("start")
	if rc.P("scenario", 0) == 1 {
		c17SigAllCrossMint(ww, 1)
		rc.Nontrivial = true
		return
	}
	if rc.P("scenario", 0) == 4 {
		// rotation noticed by the wallets, then the wallet programs are restarted: what they know
		// about old and new keysets must come back from storage
		seq := []string{"mint", "send", "send", "rotate", "mint", "mint", "mint", "reload", "reload", "reload", "reload",
			"receive", "receive", "reclaim", "reclaim", "send", "send", "receive", "reload", "reload", "send", "melt"}
		for i, k := range seq {
			ww.step = i
			for idx, name := range wwKinds {
				if name == k && k == "rotate" && rc.P("k", 0) < 3 {
					// the new keyset keeps the old fee rate (fractional fees of two keysets in one transaction)
					ww.StepRotate([]uint64{uint64(c17Fees[fi])})
				} else if name == k {
					ww.Step(idx)
				}
			}
			ww.CheckWallets("step")
		}
		ww.Settle()
		ww.CheckWallets("settled")
		rc.S.Probe("c17_rotation_then_reload")
		rc.Nontrivial = true
		return
	}
	if rc.P("scenario", 0) == 5 {
		// every wallet holds proofs of two keysets with the same fractional fee rate, and nearly whole
		// balances change hands: each transaction mixes both keysets (the fee is rounded once per transaction)
		for i, w := range ww.Wallets {
			ww.step = i
			ww.mintInto(w, uint64(37+i))
		}
		ww.StepRotate([]uint64{uint64(c17Fees[fi])})
		for i, w := range ww.Wallets {
			ww.step = 10 + i
			ww.mintInto(w, uint64(21+2*i))
			ww.CheckWallets("step")
		}
		for i := 0; i < 6; i++ {
			ww.step = 20 + i
			ww.forceSendAll = true
			ww.StepSend()
			ww.forceSendAll = false
			ww.CheckWallets("step")
			ww.StepReceive()
			ww.CheckWallets("step")
		}
		ww.Settle()
		ww.CheckWallets("settled")
		rc.S.Probe("c17_mixed_keysets_same_fee")
		rc.Nontrivial = true
		return
	}
	if rc.P("scenario", 0) == 8 {
		// tokens are out (pending, unredeemed), the mint rotates its keyset, and the very first thing each
		// wallet does afterwards is reclaim - with whatever it remembers of the mint's keysets; then the
		// wallet programs are restarted and reclaim again
		for i := 0; i < 3; i++ {
			ww.step = i
			ww.StepSend()
			ww.CheckWallets("step")
		}
		ww.StepRotate([]uint64{uint64(c17Fees[fi])})
		for round := 0; round < 2; round++ {
			for _, w := range ww.Wallets {
				ww.step++
				ww.op("w.reclaim remove=false")
				ww.W.WalletOp(w, ww.name("reclaim."+w), nil, func(wl *wallet.Wallet) { wl.ReclaimUnspentProofs() })
				ww.CheckWallets("step")
				ww.checkHandedOutStillPending("after reclaim")
			}
			for range ww.Wallets {
				ww.StepReload()
			}
			ww.CheckWallets("step")
			ww.checkHandedOutStillPending("after reload")
		}
		ww.Settle()
		ww.CheckWallets("settled")
		rc.S.Probe("c17_reclaim_first_after_rotation")
		rc.Nontrivial = true
		return
	}
	if rc.P("scenario", 0) == 9 {
		// a melt is pending AND a token nobody claimed is outstanding; the wallet reclaims while the melt
		// is still in flight (only the token comes back, the melt's inputs stay pending); then the payment
		// fails (k even) or succeeds (k odd) and the quote is checked
		ww.step = 0
		ww.W.LN.ForceNextPay = "pending"
		ww.StepMelt()
		ww.W.LN.ForceNextPay = ""
		var melter string
		for _, w := range ww.Wallets {
			if len(ww.PendQ[w]) > 0 {
				melter = w
			}
		}
		if melter == "" {
			return
		}
		mint := mintNameOfURL(ww.node(melter).Mint)
		f := forcedSend{melter, 1 + ww.balanceAt(melter, mint)/4, false}
		ww.forceSend = &f
		ww.step++
		ww.StepSend()
		ww.forceSend = nil
		ww.CheckWallets("step")
		ww.step++
		ww.op("w.reclaim remove=false")
		ww.W.WalletOp(melter, ww.name("reclaim."+melter), nil, func(wl *wallet.Wallet) { wl.ReclaimUnspentProofs() })
		for _, t := range ww.Tokens {
			if t.From == melter && !t.Claimed {
				t.Claimed = true // reclaimed by its sender: void
			}
		}
		ww.CheckWallets("step")
		for _, k := range ww.W.LN.InflightKeys() {
			ww.W.LN.ResolveInflight(k, rc.P("k", 0)%2 == 1)
		}
		for _, qid := range ww.PendQ[melter] {
			ww.step++
			ww.op("w.checkmelt")
			ww.W.WalletOp(melter, ww.name("chk."+melter), nil, func(wl *wallet.Wallet) { wl.CheckMeltQuoteState(qid) })
			ww.CheckWallets("step")
		}
		ww.Settle()
		ww.CheckWallets("settled")
		rc.S.Probe("c17_reclaim_while_melt_pending")
		rc.Nontrivial = true
		return
	}
	if rc.P("scenario", 0) == 7 {
		// a melt goes pending, its payment then fails, and the first thing the wallet does is reclaim
		// (before it ever looks at the quote), with nothing else pending; then it spends and reconciles
		ww.step = 0
		ww.W.LN.ForceNextPay = "pending"
		ww.StepMelt()
		ww.W.LN.ForceNextPay = ""
		ww.CheckWallets("step")
		for _, k := range ww.W.LN.InflightKeys() {
			ww.W.LN.ResolveInflight(k, false)
		}
		for _, w := range ww.Wallets {
			if len(ww.PendQ[w]) == 0 {
				continue
			}
			ww.step++
			ww.op("w.reclaim remove=false")
			ww.W.WalletOp(w, ww.name("reclaim."+w), nil, func(wl *wallet.Wallet) { wl.ReclaimUnspentProofs() })
			ww.CheckWallets("step")
		}
		for i := 0; i < 3; i++ {
			ww.step++
			ww.forceSendAll = true
			ww.StepSend()
			ww.forceSendAll = false
			ww.CheckWallets("step")
		}
		for _, w := range ww.Wallets {
			for _, qid := range ww.PendQ[w] {
				ww.op("w.checkmelt")
				ww.W.WalletOp(w, ww.name("chk."+w), nil, func(wl *wallet.Wallet) { wl.CheckMeltQuoteState(qid) })
				ww.CheckWallets("step")
			}
		}
		ww.Settle()
		ww.CheckWallets("settled")
		rc.S.Probe("c17_reclaim_before_quote_check")
		rc.Nontrivial = true
		return
	}
	if rc.P("scenario", 0) == 3 {
		// a melt stays pending past its quote's expiry; the wallet reconciles before and after the
		// payment reaches its outcome
		ww.step = 0
		ww.W.LN.ForceNextPay = "pending"
		ww.StepMelt()
		ww.W.LN.ForceNextPay = ""
		ww.CheckWallets("step")
		ww.op("clock+2h")
		rc.S.Sleep(2 * time.Hour)
		for _, w := range ww.Wallets {
			for _, qid := range ww.PendQ[w] {
				ww.op("w.checkmelt")
				ww.W.WalletOp(w, ww.name("chk."+w), nil, func(wl *wallet.Wallet) { wl.CheckMeltQuoteState(qid) })
			}
		}
		ww.CheckWallets("step")
		for i := 0; i < 3; i++ {
			ww.step = 1 + i
			ww.StepResolveMelt()
			ww.CheckWallets("step")
		}
		ww.Settle()
		ww.CheckWallets("settled")
		rc.S.Probe("c17_late_resolution")
		rc.Nontrivial = true
		return
	}
	if rc.P("scenario", 0) == 2 {
		// the cross-mint payment stays in flight; the same token is then received again without
		// swap-to-trusted; finally the payment succeeds
		ww.W.LN.ForceNextPay = "pending"
		c17SigAllCrossMint(ww, 32)
		if len(ww.Tokens) == 0 {
			return
		}
		t := ww.Tokens[len(ww.Tokens)-1]
		ww.op("w.receive p2pk sigall=true crossmint=false")
		ww.W.WalletOp(t.To, "recv2", nil, func(wl *wallet.Wallet) {
			tk, _ := cashu.DecodeToken(t.Str)
			wl.Receive(tk, false)
		})
		ww.CheckWallets("step")
		ww.Settle()
		ww.CheckWallets("settled")
		rc.Nontrivial = true
		return
	}
	// weights:       mint send receive sendlocked melt resolvemelt reclaim mintswap rotate remelt clock reload
	weights := []int{2, 5, 5, 2, 3, 2, 2, 1, 1, 2, 1, 2}
	rc.StepLoop(4, 18, func(i int) {
		ww.step = i
		if T.Chance("imelt", 1, 12) {
			ww.StepInternalMelt()
		} else {
			ww.Step(T.Pick("step.kind", weights...))
		}
		ww.CheckWallets("step")
	})
	ww.Settle()
	ww.CheckWallets("settled")
	rc.Nontrivial = rc.S.Stats["c17_conservation_checked"] > 2
}

// checkHandedOutStillPending: (fixed scenarios without restores) a token a wallet handed out whose proofs
// are still unspent at the mint has not been reconciled: its value must still be in the sender's
// pending set ("pending balance is exactly the value handed out ... and not yet reconciled").
func (ww *WW) checkHandedOutStillPending(when string) {
	for _, t := range ww.Tokens {
		n := ww.node(t.From)
		if t.Claimed || n == nil || n.Inner == nil {
			continue
		}
		pend := map[string]bool{}
		for _, p := range n.Inner.GetPendingProofs() {
			pend[p.Secret] = true
		}
		var Ys []string
		for _, p := range t.Proofs {
			Ys = append(Ys, hY(p.Secret))
		}
		st := ww.W.MintState(t.Mint, Ys)
		for _, p := range t.Proofs {
			if st[hY(p.Secret)] == "UNSPENT" && !pend[p.Secret] {
				ww.W.Book.Violate("C17.pending_dropped", ww.W.LastWalletOp, "%s handed out a proof of %d sat that is still unspent at the mint, but no longer holds it as pending (%s, after [%s])", t.From, p.Amount, when, ww.W.LastWalletOp)
				return
			}
		}
	}
	ww.rc.S.Probe("c17_handed_out_still_pending_checked")
}

// c17SigAllCrossMint: fixed scenario: a SIG_ALL P2PK token worth 1 sat issued at the sender's mint is
// received with swap-to-trusted by a wallet whose trusted mint is another one.
func c17SigAllCrossMint(ww *WW, amount uint64) {
	ww.step = 0
	from, to := ww.Wallets[1], ww.Wallets[0]
	mint := mintNameOfURL(ww.node(from).Mint)
	if ww.balanceAt(from, mint) < amount+8 {
		ww.mintInto(from, amount+32) // the initial funding went to wallets drawn from the tape
	}
	toKey := ww.node(to).W.GetReceivePubkey()
	var proofs cashu.Proofs
	var err error
	ww.op("w.sendlocked htlc=false sigall=true")
	ww.W.WalletOp(from, "lock", nil, func(wl *wallet.Wallet) {
		proofs, err = wl.SendToPubkey(amount, ww.mintURL(mint), toKey, &nut11.P2PKTags{Sigflag: nut11.SIGALL}, false)
	})
	if err != nil {
		return
	}
	s, _ := MakeToken(proofs, ww.mintURL(mint), false, false)
	ww.Tokens = append(ww.Tokens, &OutToken{Str: s, Proofs: proofs, From: from, Mint: mint, Amount: amount, Kind: "p2pk", To: to})
	ww.CheckWallets("step")
	ww.op("w.receive p2pk sigall=true crossmint=true")
	ww.W.WalletOp(to, "recv", nil, func(wl *wallet.Wallet) {
		t, _ := cashu.DecodeToken(s)
		wl.Receive(t, true)
	})
	ww.CheckWallets("step")
}
