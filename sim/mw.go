package sim

import (
	"fmt"
	"math/big"
	"sort"
	"time"

	gmint "github.com/elnosh/gonuts/mint"
)

// MW is the general mint-level workload: one or two mints, raw protocol actors
// (honest user, attacker, auditor), the Book as online oracle and the drain audit
// at the end. Profiles C01, C02, C04, C09, C15, C16 are different mixes of its steps.

type PendingMelt struct {
	Mint  string
	Q     *MeltQuote
	Ins   []*HProof
	Key   string // LN payment key
	Known bool
}

type MW struct {
	rc      *RunCtx
	W       *World
	T       *Tape
	User    *Actor
	Atk     *Actor
	Spent   map[string][]*HProof // proofs the harness knows were consumed (acked), per mint
	Pending []*PendingMelt
	Mints   []string
	Fees    map[string][]uint64 // fee set to draw rotations from
	step    int
	// NoAmbiguity: honest operations must succeed (fault-free sub-profile)
	Strict          bool
	forceRaceShared bool // fixed scenarios: the first two racers melt on one shared quote
	forceAdvMode    int
	forceMeltSat    uint64
	NextPlans       []*FaultPlan // fault plans for the next step's episode
	Faulted         bool         // a storage error was injected: oracles that need exact knowledge relax
	// Locks: honest swaps sometimes produce P2PK/HTLC locked proofs, spent later with a witness
	Locks          bool
	MPP            bool
	exactMelt      bool
	Unknown        map[string]bool // secrets whose state the harness no longer claims to know
	BeforeAudit    func()          // runs in Finale after everything settled, before the drain audit
	forceRotate    bool
	keysCacheStale bool
}

func NewMW(rc *RunCtx, mints ...string) *MW {
	m := &MW{rc: rc, W: rc.W, T: rc.T, Mints: mints, Spent: map[string][]*HProof{}, Unknown: map[string]bool{}}
	m.User = NewActor(rc.W, "user")
	m.Atk = NewActor(rc.W, "atk")
	return m
}

func (m *MW) name(kind string) string { return fmt.Sprintf("s%d.%s", m.step, kind) }

func (m *MW) pickMint() string { return m.Mints[m.T.Choose("mint", len(m.Mints))] }

// pickProofs selects k distinct spendable proofs of the user (tape-chosen).
func (m *MW) pickProofs(mint string, k int) []*HProof {
	purse := m.User.Purse[mint]
	if len(purse) == 0 {
		return nil
	}
	if k > len(purse) {
		k = len(purse)
	}
	idx := map[int]bool{}
	var sel []*HProof
	for len(sel) < k {
		i := m.T.Choose("pick.proof", len(purse))
		for idx[i] {
			i = (i + 1) % len(purse)
		}
		idx[i] = true
		sel = append(sel, purse[i])
	}
	return sel
}

func (m *MW) feeFor(mint string, ins []*HProof) uint64 {
	mb := m.W.Book.Mint(mint)
	var ppk uint64
	for _, p := range ins {
		if ks := mb.Keysets[p.ID]; ks != nil {
			ppk += ks.Fee
		}
	}
	return (ppk + 999) / 1000
}

func (m *MW) markSpent(mint string, ins []*HProof) {
	m.User.remove(mint, ins)
	m.Spent[mint] = append(m.Spent[mint], ins...)
}

// ---- steps ----

func (m *MW) StepFund() {
	mint := m.pickMint()
	amount := uint64(1 + m.T.Choose("fund.amt", 128))
	if m.T.Chance("fund.big", 1, 6) {
		amount = uint64(1) << uint(7+m.T.Choose("fund.exp", 6))
	}
	m.rc.Op("fund")
	ks := m.W.ActiveKeyset(mint)
	name := m.name("fund")
	m.begin()
	m.rc.S.Run1(name, m.W.Ext, func() {
		q, _ := m.User.ReqMintQuote(mint, amount, false)
		if q == nil {
			return
		}
		m.W.LN.PayExternal(q.Hash)
		outs := m.W.NewOutputs(Split(amount), ks.ID)
		_, r := m.User.Mint(mint, q, outs, "")
		if !r.OK() && m.Strict {
			m.W.Book.Violate("C04.honest_rejected", "mint", "honest mint of a paid quote rejected: %v", r)
		}
		if !r.OK() && m.Faulted {
			// an honest client whose request met a storage error tries again with fresh outputs
			m.User.Mint(mint, q, m.W.NewOutputs(Split(amount), ks.ID), "")
			m.rc.S.Probe("fund_retry_after_fault")
		}
	})
}

// StepMintRace: two or three concurrent mint requests (different outputs) for one paid quote,
// followed by one more request with fresh outputs. Everything that is signed lands in the purse:
// the Book counts issuances per quote (C03) and the drain audit the backing (C02).
func (m *MW) StepMintRace() {
	mint := m.pickMint()
	amount := uint64(1 + m.T.Choose("mrace.amt", 64))
	n := 2 + m.T.Choose("mrace.n", 2)
	m.rc.Op(fmt.Sprintf("mintrace x%d", n))
	ks := m.W.ActiveKeyset(mint)
	var q *MintQuote
	m.begin()
	m.rc.S.Run1(m.name("mraceq"), m.W.Ext, func() {
		q, _ = m.User.ReqMintQuote(mint, amount, false)
		if q != nil {
			m.W.LN.PayExternal(q.Hash)
		}
	})
	if q == nil {
		return
	}
	m.begin()
	for i := 0; i < n; i++ {
		name := fmt.Sprintf("%s.%d", m.name("mrace"), i)
		outs := m.W.NewOutputs(Split(amount), ks.ID)
		m.rc.S.Go(name, m.W.Ext, true, func() {
			a := NewActor(m.W, name)
			ps, r := a.Mint(mint, q, outs, "")
			if r.OK() {
				m.User.Purse[mint] = append(m.User.Purse[mint], ps...)
			}
		})
	}
	m.rc.S.Drive(false)
	m.rc.S.Probe("mint_race_episode")
	m.begin()
	m.rc.S.Run1(m.name("mrace.late"), m.W.Ext, func() {
		m.User.Mint(mint, q, m.W.NewOutputs(Split(amount), ks.ID), "")
	})
}

// StepSwap: honest swap at the exact fee boundary; optionally first tries one sat too much (must fail).
func (m *MW) StepSwap() {
	mint := m.pickMint()
	k := 1 + m.T.Choose("swap.k", 4)
	ins := m.pickProofs(mint, k)
	if ins == nil {
		m.StepFund()
		return
	}
	m.rc.Op("swap")
	ks := m.W.ActiveKeyset(mint)
	fee := m.feeFor(mint, ins)
	sum := SumH(ins)
	over := m.T.Chance("swap.over", 1, 4)
	under := uint64(0)
	if sum > fee && m.T.Chance("swap.under", 1, 5) {
		under = uint64(m.T.Choose("swap.underby", int(sum-fee)))
	}
	// now and then the user swaps into P2PK / HTLC locked secrets it can unlock itself: later
	// swaps and melts then carry witnesses, which state checks must report (C15)
	lockKind := 0
	if m.Locks && m.T.Chance("swap.lock", 1, 3) {
		lockKind = 1 + m.T.Choose("swap.lockkind", 2)
	}
	name := m.name("swap")
	m.begin()
	m.rc.S.Run1(name, m.W.Ext, func() {
		if sum <= fee {
			return
		}
		if over {
			outs := m.W.NewOutputs(Split(sum-fee+1), ks.ID)
			_, r := m.Atk.Swap(mint, ins, outs)
			m.rc.S.Probe("swap_over_boundary")
			if r.OK() {
				// Book reports C02.swap_balance; the inputs are gone
				m.markSpent(mint, ins)
				return
			}
		}
		var outs []*HOutput
		switch lockKind {
		case 1:
			outs = m.W.NewLockedOutputs(Split(sum-fee-under), ks.ID, false)
		case 2:
			outs = m.W.NewLockedOutputs(Split(sum-fee-under), ks.ID, true)
		default:
			outs = m.W.NewOutputs(Split(sum-fee-under), ks.ID)
		}
		_, r := m.User.Swap(mint, ins, outs)
		if r.OK() {
			if lockKind > 0 {
				m.rc.S.Probe("swap_to_locked")
			}
			if hasWitness(ins) {
				m.rc.S.Probe("swap_of_locked")
			}
			m.Spent[mint] = append(m.Spent[mint], ins...)
			m.rc.S.Probe("swap_at_boundary")
			if len(idsOf(ins)) > 1 {
				m.rc.S.Probe("swap_mixed_keysets")
			}
		} else if m.Strict {
			m.W.Book.Violate("C04.honest_rejected", "swap", "honest swap of %d unspent proofs (sum %d, fee %d) rejected: %v", len(ins), sum, fee, r)
		}
	})
}

// faultableKinds: step kinds into which a storage error may be injected (they never talk to the
// mint outside their own episodes).
var faultableKinds = map[string]bool{"fund": true, "swap": true, "melt": true, "resolve": true, "replay": true, "dup": true, "race": true, "internal": true, "mintrace": true}

// StepMaybeFaulted runs a step; when the run is in its fault-injecting configuration the step's
// first episode may meet one storage error at a drawn position. From then on the oracles that rest
// on the harness's own beliefs (expected states, honest requests must succeed) are off; the
// Book's rules over acknowledged outcomes and the drain audit stay on.
func (m *MW) StepMaybeFaulted(kind int, allowRotate, faults bool) {
	if faults && faultableKinds[mwKinds[kind]] && m.T.Chance("fault.step", 1, 3) {
		m.Faulted = true
		m.Strict = false
		m.NextPlans = []*FaultPlan{{Node: "A", Kind: "db_error", SeamKind: "db", Pos: 1 + m.T.Choose("fault.pos", 12)}}
		m.rc.S.Probe("mw_fault_armed")
	}
	m.Step(kind, allowRotate)
	m.NextPlans = nil
}

// begin opens the episode of a step; fault plans queued in NextPlans apply to this step only.
func (m *MW) begin() {
	m.rc.S.BeginEpisode(m.NextPlans...)
	m.NextPlans = nil
}

func hasWitness(ps []*HProof) bool {
	for _, p := range ps {
		if p.Witness != "" {
			return true
		}
	}
	return false
}

func idsOf(ps []*HProof) map[string]bool {
	s := map[string]bool{}
	for _, p := range ps {
		s[p.ID] = true
	}
	return s
}

// StepMelt: melt towards an external invoice; outcome decided by the Lightning model.
func (m *MW) StepMelt() {
	mint := m.pickMint()
	purse := SumH(m.User.Purse[mint])
	if purse < 4 {
		m.StepFund()
		return
	}
	maxAmt := purse / 2
	if maxAmt > 200 {
		maxAmt = 200
	}
	amtSat := uint64(1 + m.T.Choose("melt.amt", int(maxAmt)))
	msat := amtSat * 1000
	if m.T.Chance("melt.msat", 1, 4) {
		msat += uint64(1 + m.T.Choose("melt.msatrem", 999))
	}
	mpp := m.MPP && m.T.Chance("melt.mpp", 1, 3)
	if m.forceMeltSat > 0 {
		// fixed scenarios: a whole number of sats, partial payment of exactly half of it
		amtSat, msat, mpp = m.forceMeltSat, m.forceMeltSat*1000, m.MPP
	}
	m.exactMelt = m.T.Chance("melt.exact", 1, 2)
	m.rc.Op("melt")
	inv := m.W.LN.NewExternalInvoice(msat)
	name := m.name("melt")
	m.begin()
	m.rc.S.Run1(name, m.W.Ext, func() {
		var mppMsat uint64
		if mpp && msat > 2000 {
			mppMsat = msat / 2
		}
		q, r := m.User.ReqMeltQuote(mint, inv.Bolt11, mppMsat)
		if q == nil {
			if m.Strict {
				m.W.Book.Violate("C04.honest_rejected", "meltquote", "honest melt quote rejected: %v", r)
			}
			return
		}
		m.doMelt(mint, q)
	})
}

// exactProofs swaps (honestly) so that the user holds proofs worth exactly need plus
// the input fee of spending them, and returns those.
func (m *MW) exactProofs(mint string, need uint64) []*HProof {
	ks := m.W.ActiveKeyset(mint)
	// proofs of the active keyset: fee per proof is ks.Fee
	for n := 1; n <= 12; n++ {
		target := need + (uint64(n)*ks.Fee+999)/1000
		split := Split(target)
		if len(split) > n {
			continue
		}
		if len(split) < n {
			// split further to reach exactly n proofs if possible
			for len(split) < n {
				// break the largest splittable amount
				idx := -1
				for i, a := range split {
					if a > 1 && (idx < 0 || a > split[idx]) {
						idx = i
					}
				}
				if idx < 0 {
					break
				}
				h := split[idx] / 2
				split[idx] = h
				split = append(split, h)
			}
			if len(split) != n {
				continue
			}
		}
		src := m.User.Take(mint, target+8)
		if src == nil {
			return nil
		}
		fee := m.feeFor(mint, src)
		if SumH(src) < target+fee {
			return nil
		}
		change := SumH(src) - fee - target
		outs := m.W.NewOutputs(split, ks.ID)
		outs = append(outs, m.W.NewOutputs(Split(change), ks.ID)...)
		ps, r := m.User.Swap(mint, src, outs)
		if !r.OK() {
			return nil
		}
		m.Spent[mint] = append(m.Spent[mint], src...)
		return ps[:len(split)]
	}
	return nil
}

func (m *MW) doMelt(mint string, q *MeltQuote) {
	need := q.Amount + q.Reserve
	if m.exactMelt {
		if ins := m.exactProofs(mint, need); ins != nil {
			m.rc.S.Probe("melt_exact_inputs")
			r := m.User.Melt(mint, q.ID, ins)
			m.afterMelt(mint, q, ins, r)
			return
		}
	}
	ins := m.User.Take(mint, need+2)
	if ins == nil {
		return
	}
	// make sure inputs cover the input fee as well
	for SumH(ins) < need+m.feeFor(mint, ins) {
		more := m.User.Take(mint, SumH(ins)+1)
		if more == nil || len(more) == len(ins) {
			return
		}
		ins = more
	}
	r := m.User.Melt(mint, q.ID, ins)
	m.afterMelt(mint, q, ins, r)
}

func (m *MW) afterMelt(mint string, q *MeltQuote, ins []*HProof, r *Resp) {
	switch {
	case r.OK() && RespState(r) == "PAID":
		m.markSpent(mint, ins)
		m.rc.S.Probe("melt_paid")
	case r.OK() && RespState(r) == "PENDING":
		m.User.remove(mint, ins)
		m.Pending = append(m.Pending, &PendingMelt{Mint: mint, Q: q, Ins: ins, Key: mint + "|" + q.Hash, Known: true})
		m.rc.S.Probe("melt_pending")
	case r.OK() && RespState(r) == "UNPAID":
		m.rc.S.Probe("melt_unpaid")
	default:
		m.rc.S.Probe("melt_rejected")
		// a melt answered with an error leaves the inputs in a state the harness does not know
		// (rejected before anything happened, or failed after they were locked): the next quote
		// poll tells (settlePending)
		m.User.remove(mint, ins)
		m.Pending = append(m.Pending, &PendingMelt{Mint: mint, Q: q, Ins: ins, Key: mint + "|" + q.Hash})
	}
}

// StepResolve: an in-flight payment reaches its final outcome; then somebody polls.
func (m *MW) StepResolve() {
	if len(m.Pending) == 0 {
		m.StepSwap()
		return
	}
	i := m.T.Choose("resolve.which", len(m.Pending))
	pm := m.Pending[i]
	succeed := m.T.Chance("resolve.fail", 1, 2) == false
	via := m.T.Choose("resolve.via", 3)
	m.rc.Op("resolve")
	m.W.LN.ResolveInflight(pm.Key, succeed)
	name := m.name("resolve")
	m.begin()
	m.rc.S.Run1(name, m.W.Ext, func() {
		switch via {
		case 0:
			m.User.PollMeltQuote(pm.Mint, pm.Q.ID)
		case 1:
			// the first request to notice the outcome is a state check
			Ys := []string{pm.Ins[0].Y()}
			r := m.User.CheckState(pm.Mint, Ys)
			if r.OK() && pm.Known {
				if arr, _ := r.Body["states"].([]any); len(arr) == 1 {
					st, _ := arr[0].(map[string]any)["state"].(string)
					pay := m.W.LN.Payments[pm.Key]
					m.rc.S.Probe("c15_resolve_via_checkstate")
					if pay != nil {
						final := map[payTruth]string{ptSucceeded: "SPENT", ptFailed: "UNSPENT"}[pay.Truth]
						// the answer is the final state, or still PENDING if the backend answered ambiguously
						if final != "" && st != final && !(st == "PENDING" && m.W.LN.Cfg.AmbiguousPct > 0) {
							m.W.Book.Violate("C15.state_wrong", "resolve:"+final+"->"+st, "checkstate after the payment %s reports %s for the melt's input", pay.Truth, st)
						}
						if final == "SPENT" && st == "UNSPENT" {
							// C01's reporting clause: this very request settled the melt (the proof is spent from
							// now on, a swap of it is refused) and yet it answers UNSPENT
							m.W.Book.Violate("C01.spent_not_reported", "checkstate-resolving", "checkstate that notices the payment's success marks the melt's input spent but reports it UNSPENT")
						}
					}
				}
			}
		case 2:
			m.User.PollMeltQuote(pm.Mint, pm.Q.ID)
			m.User.PollMeltQuote(pm.Mint, pm.Q.ID)
		}
	})
	m.settlePending()
}

// settlePending updates harness beliefs from quote polls (quiet, driver).
func (m *MW) settlePending() {
	var keep []*PendingMelt
	for _, pm := range m.Pending {
		var st string
		m.rc.Quietly(func() {
			st = RespState(m.User.PollMeltQuote(pm.Mint, pm.Q.ID))
		})
		switch st {
		case "PAID":
			m.Spent[pm.Mint] = append(m.Spent[pm.Mint], pm.Ins...)
		case "UNPAID":
			mb := m.W.Book.Mint(pm.Mint)
			for _, p := range pm.Ins {
				// released; unless somebody (the attacker's replay) consumed it meanwhile, acknowledged on the wire
				if r := mb.Secrets[p.Secret]; r != nil && len(r.Cons) > 0 {
					m.Spent[pm.Mint] = append(m.Spent[pm.Mint], p)
					continue
				}
				if m.Unknown[p.Secret] {
					continue
				}
				p.Gone = false
				m.User.Purse[pm.Mint] = append(m.User.Purse[pm.Mint], p)
			}
		default:
			keep = append(keep, pm)
		}
	}
	m.Pending = keep
}

// StepReplay: the attacker re-presents an already used (or locked) secret.
func (m *MW) StepReplay() {
	mint := m.pickMint()
	var victim *HProof
	src := "spent"
	if len(m.Pending) > 0 && m.T.Chance("replay.pending", 1, 3) {
		pm := m.Pending[m.T.Choose("replay.pm", len(m.Pending))]
		mint = pm.Mint
		victim = pm.Ins[m.T.Choose("replay.pi", len(pm.Ins))]
		src = "pending"
	} else if sp := m.Spent[mint]; len(sp) > 0 {
		victim = sp[m.T.Choose("replay.si", len(sp))]
	} else {
		m.StepSwap()
		return
	}
	mode := m.T.Choose("replay.mode", 7)
	if src == "pending" {
		// the attacker may legitimately win this proof if it gets released: from now on the harness holds no
		// belief about its state (the Book and the audit still judge it)
		m.Unknown[victim.Secret] = true
	}
	m.rc.Op("replay-" + src)
	ks := m.W.ActiveKeyset(mint)
	name := m.name("replay")
	m.rc.S.Probe("replay_" + src)
	// sometimes one of the mint's reads during verification fails (storage error)
	if k := m.T.Choose("replay.dberr", 6); k >= 3 {
		m.rc.S.BeginEpisode(&FaultPlan{Node: mint, Kind: "db_error", SeamKind: "db", Pos: k - 2})
	} else {
		m.begin()
	}
	m.rc.S.Run1(name, m.W.Ext, func() {
		a := m.Atk
		cp := *victim
		switch mode {
		case 0: // alone, fresh outputs
			a.Swap(mint, []*HProof{&cp}, m.W.NewOutputs(Split(cp.Amount), ks.ID))
		case 1: // with changed witness
			cp.Witness = `{"signatures":["00"]}`
			a.Swap(mint, []*HProof{&cp}, m.W.NewOutputs(Split(cp.Amount), ks.ID))
		case 2: // mixed with a fresh unspent proof of the user
			fresh := m.pickProofs(mint, 1)
			ins := []*HProof{&cp}
			if fresh != nil {
				ins = append(ins, fresh[0])
			}
			_, r := a.Swap(mint, ins, m.W.NewOutputs(Split(SumH(ins)), ks.ID))
			if r.OK() && fresh != nil {
				m.markSpent(mint, fresh)
			}
		case 3: // with dleq attached (raw JSON)
			pj := cp.J()
			pj["dleq"] = map[string]any{"e": cp.E, "s": cp.S, "r": scalarHex(cp.R)}
			outs := m.W.NewOutputs(Split(cp.Amount), ks.ID)
			a.Post(mint, "/v1/swap", map[string]any{"inputs": []any{pj}, "outputs": outsJ(outs)})
		case 4: // in a melt against a fresh quote
			inv := m.W.LN.NewExternalInvoice(cp.Amount * 1000 / 2)
			if q, _ := a.ReqMeltQuote(mint, inv.Bolt11, 0); q != nil {
				a.Melt(mint, q.ID, []*HProof{&cp})
			}
		case 5: // checkstate must say SPENT/PENDING
			a.CheckState(mint, []string{cp.Y()})
		case 6: // twice in one request
			cp2 := cp
			cp2.Witness = `{"signatures":[]}`
			a.Swap(mint, []*HProof{&cp, &cp2}, m.W.NewOutputs(Split(cp.Amount*2), ks.ID))
		}
	})
}

// StepDup: a still unspent secret is presented twice inside one request (variants).
func (m *MW) StepDup() {
	mint := m.pickMint()
	ins := m.pickProofs(mint, 1)
	if ins == nil {
		m.StepFund()
		return
	}
	p := ins[0]
	mode := m.T.Choose("dup.mode", 4)
	m.rc.Op("dup")
	ks := m.W.ActiveKeyset(mint)
	fee := m.feeFor(mint, []*HProof{p, p})
	m.begin()
	m.rc.S.Run1(m.name("dup"), m.W.Ext, func() {
		a, b := p.J(), p.J()
		switch mode {
		case 0: // identical
		case 1:
			b["witness"] = `{"signatures":["00"]}`
		case 2:
			b["dleq"] = map[string]any{"e": p.E, "s": p.S, "r": scalarHex(p.R)}
		case 3:
			a["witness"] = "x"
			b["witness"] = "y"
		}
		if 2*p.Amount <= fee {
			return
		}
		outs := m.W.NewOutputs(Split(2*p.Amount-fee), ks.ID)
		r := m.Atk.Post(mint, "/v1/swap", map[string]any{"inputs": []any{a, b}, "outputs": outsJ(outs)})
		m.rc.S.Probe("dup_in_request")
		if r.OK() {
			m.markSpent(mint, ins)
		}
	})
	// the proof must still be spendable afterwards (rejected request changes nothing)
	m.checkStillSpendable(mint, ins, "dup")
}

func (m *MW) checkStillSpendable(mint string, ins []*HProof, why string) {
	if !m.Strict {
		return
	}
	for _, p := range ins {
		if p.Gone {
			return
		}
	}
	ks := m.W.ActiveKeyset(mint)
	fee := m.feeFor(mint, ins)
	if SumH(ins) <= fee {
		return
	}
	m.begin()
	m.rc.S.Run1(m.name("still"), m.W.Ext, func() {
		outs := m.W.NewOutputs(Split(SumH(ins)-fee), ks.ID)
		_, r := m.User.Swap(mint, ins, outs)
		if r.OK() {
			m.Spent[mint] = append(m.Spent[mint], ins...)
		} else {
			m.W.Book.Violate("C06.rejected_changed_state", why, "proofs no longer spendable after a rejected %s request: %v", why, r)
		}
	})
}

// StepRace: two or three concurrent requests sharing at least one secret.
func (m *MW) StepRace() {
	mint := m.pickMint()
	ins := m.pickProofs(mint, 1+m.T.Choose("race.k", 2))
	if ins == nil || SumH(ins) < 2 {
		m.StepFund()
		return
	}
	n := 2 + m.T.Choose("race.n", 2)
	kinds := make([]int, n) // 0 swap, 1 melt
	for i := range kinds {
		kinds[i] = m.T.Pick("race.kind", 3, 2)
		if m.forceRaceShared && i < 2 {
			kinds[i] = 1
		}
	}
	m.rc.Op(fmt.Sprintf("race%v", kinds))
	ks := m.W.ActiveKeyset(mint)
	fee := m.feeFor(mint, ins)
	sum := SumH(ins)
	if sum <= fee+1 {
		return
	}
	won := make([]bool, n)
	locked := make([]*PendingMelt, n)
	// sometimes all melt racers use ONE quote (overlapping attempts on the same melt quote); all but the
	// first then present either the same inputs or a forged copy of them
	var shared *MeltQuote
	if m.T.Chance("race.samequote", 1, 3) || m.forceRaceShared {
		amt := (sum - fee) / 2
		if amt == 0 {
			amt = 1
		}
		inv := m.W.LN.NewExternalInvoice(amt * 1000)
		m.rc.Quietly(func() { shared, _ = m.User.ReqMeltQuote(mint, inv.Bolt11, 0) })
		if shared != nil && shared.Amount+shared.Reserve+fee > sum {
			shared = nil
		}
		if shared != nil {
			m.rc.S.Probe("race_melts_share_one_quote")
		}
	}
	firstMelt := true
	m.begin()
	for i := 0; i < n; i++ {
		i := i
		name := fmt.Sprintf("%s.%d", m.name("race"), i)
		if kinds[i] == 1 && shared != nil {
			forged := !firstMelt && m.T.Chance("race.forgedins", 1, 2)
			firstMelt = false
			m.rc.S.Go(name, m.W.Ext, true, func() {
				a := NewActor(m.W, name)
				var r *Resp
				if forged {
					pj := ins[0].J()
					pj["C"] = pointHex(mulG(randScalar()))
					r = a.Post(mint, "/v1/melt/bolt11", map[string]any{"quote": shared.ID, "inputs": []any{pj}})
				} else {
					r = a.Melt(mint, shared.ID, ins)
				}
				if r.OK() && RespState(r) == "PAID" {
					won[i] = true
				} else if r.OK() && RespState(r) == "PENDING" {
					locked[i] = &PendingMelt{Mint: mint, Q: shared, Ins: ins, Key: mint + "|" + shared.Hash, Known: true}
				} else if !r.OK() && !forged {
					if p := m.W.LN.Payments[mint+"|"+shared.Hash]; p != nil && p.Attempts > 0 {
						locked[i] = &PendingMelt{Mint: mint, Q: shared, Ins: ins, Key: mint + "|" + shared.Hash}
					}
				}
			})
			continue
		}
		if kinds[i] == 0 {
			outs := m.W.NewOutputs(Split(sum-fee), ks.ID)
			m.rc.S.Go(name, m.W.Ext, true, func() {
				a := NewActor(m.W, name)
				ps, r := a.Swap(mint, ins, outs)
				if r.OK() {
					won[i] = true
					m.User.Purse[mint] = append(m.User.Purse[mint], ps...)
				}
			})
		} else {
			// each melt racer has its own quote for an external invoice
			amt := (sum - fee) / 2
			if amt == 0 {
				amt = 1
			}
			inv := m.W.LN.NewExternalInvoice(amt * 1000)
			m.rc.S.Go(name, m.W.Ext, true, func() {
				a := NewActor(m.W, name)
				q, _ := a.ReqMeltQuote(mint, inv.Bolt11, 0)
				if q == nil || q.Amount+q.Reserve+fee > sum {
					return
				}
				r := a.Melt(mint, q.ID, ins)
				if r.OK() && RespState(r) == "PAID" {
					won[i] = true
				} else if r.OK() && RespState(r) == "PENDING" {
					locked[i] = &PendingMelt{Mint: mint, Q: q, Ins: ins, Key: mint + "|" + q.Hash, Known: true}
				} else if !r.OK() {
					if p := m.W.LN.Payments[mint+"|"+q.Hash]; p != nil && p.Attempts > 0 {
						locked[i] = &PendingMelt{Mint: mint, Q: q, Ins: ins, Key: mint + "|" + q.Hash}
					}
				}
			})
		}
	}
	m.rc.S.Drive(false)
	m.rc.S.Probe("race_episode")
	any := false
	for i := range won {
		if won[i] {
			any = true
		}
		if locked[i] != nil {
			any = true
			m.Pending = append(m.Pending, locked[i])
		}
	}
	if any {
		m.User.remove(mint, ins)
		for i := range won {
			if won[i] {
				m.Spent[mint] = append(m.Spent[mint], ins...)
				break
			}
		}
	} else if m.Strict {
		// nobody won: every request was rejected, so the inputs must still be spendable
		m.checkStillSpendable(mint, ins, "race")
	}
	m.rc.Nontrivial = true
}

// StepStaleRelease: a melt's payment has failed but the mint has not noticed yet (quote PENDING).
// Two polls of that quote run concurrently with a third request that melts the same proofs
// against a NEW quote as soon as they are released, and then tries to swap them. A poll that
// read "pending under the old quote" before the other one released the proofs must not take the
// NEW melt's lock away.
func (m *MW) StepStaleRelease() {
	var pm *PendingMelt
	for _, x := range m.Pending {
		if pay := m.W.LN.Payments[x.Key]; x.Known && pay != nil && pay.Truth == ptInflight {
			pm = x
			break
		}
	}
	if pm == nil {
		// make one: a melt whose payment stays in flight
		m.W.LN.ForceNextPay = "pending"
		m.StepMelt()
		m.W.LN.ForceNextPay = ""
		for _, x := range m.Pending {
			if pay := m.W.LN.Payments[x.Key]; x.Known && pay != nil && pay.Truth == ptInflight {
				pm = x
				break
			}
		}
		if pm == nil {
			return
		}
	}
	mint := pm.Mint
	m.rc.Op("stale-release")
	m.W.LN.ResolveInflight(pm.Key, false) // failed on Lightning; the mint still says PENDING
	m.Unknown[pm.Ins[0].Secret] = true
	for _, p := range pm.Ins {
		m.Unknown[p.Secret] = true
	}
	ins := pm.Ins
	ks := m.W.ActiveKeyset(mint)
	fee := m.feeFor(mint, ins)
	if SumH(ins) <= fee+2 {
		return
	}
	// the new attempt names another quote - or the very same one (Lightning allows a failed
	// payment hash to be tried again): then the stale poll's release names the right quote
	sameQuote := m.T.Chance("stale.samequote", 1, 3)
	var q2 *MeltQuote
	if sameQuote {
		q2 = pm.Q
		m.W.LN.Scripts[pm.Q.Hash] = &LNScript{Pay: "pending"}
		m.rc.S.Probe("stale_release_same_quote")
	} else {
		inv2 := m.W.LN.NewExternalInvoice(((SumH(ins) - fee) / 2) * 1000)
		m.W.LN.Scripts[inv2.Hash] = &LNScript{Pay: "pending"}
		m.rc.Quietly(func() { q2, _ = m.Atk.ReqMeltQuote(mint, inv2.Bolt11, 0) })
		if q2 == nil || q2.Amount+q2.Reserve+fee > SumH(ins) {
			return
		}
	}
	m.begin()
	for i := 0; i < 2; i++ {
		name := fmt.Sprintf("%s.poll%d", m.name("stale"), i)
		m.rc.S.Go(name, m.W.Ext, true, func() {
			a := NewActor(m.W, name)
			if i == 0 {
				a.PollMeltQuote(mint, pm.Q.ID)
			} else {
				a.CheckState(mint, []string{ins[0].Y()})
			}
		})
	}
	var locked bool
	name := m.name("stale") + ".remelt"
	m.rc.S.Go(name, m.W.Ext, true, func() {
		a := NewActor(m.W, name)
		for try := 0; try < 3 && !locked; try++ {
			r := a.Melt(mint, q2.ID, ins)
			if r.OK() && RespState(r) == "PENDING" {
				locked = true
			} else {
				m.rc.S.Yield(m.W.Ext, "ext", "retry-melt")
			}
		}
		if locked {
			m.rc.S.Yield(m.W.Ext, "ext", "before-swap")
			// while the new payment is in flight the proofs are locked: this must be refused
			a.Swap(mint, ins, m.W.NewOutputs(Split(SumH(ins)-fee), ks.ID))
		}
	})
	m.rc.S.Drive(false)
	m.rc.S.Probe("stale_release_episode")
	if locked {
		m.rc.S.Probe("stale_release_relocked")
		if !sameQuote {
			m.Pending = append(m.Pending, &PendingMelt{Mint: mint, Q: q2, Ins: ins, Key: mint + "|" + q2.Hash})
		}
	}
	m.settlePending()
	m.rc.Nontrivial = true
}

// StepMeltPollRace: state checks and quote polls land while a melt request is being processed,
// also in the window after the quote went PENDING and before the Lightning backend knows of the
// payment (its "not found" at that instant says nothing about the payment about to be made).
func (m *MW) StepMeltPollRace() {
	mint := m.pickMint()
	purse := SumH(m.User.Purse[mint])
	if purse < 8 {
		m.StepFund()
		return
	}
	amt := uint64(1 + m.T.Choose("mpr.amt", int(purse/4)))
	mode := []string{"pending", "succeeded", "pending", "failed"}[m.T.Choose("mpr.mode", 4)]
	m.rc.Op("melt+polls " + mode)
	inv := m.W.LN.NewExternalInvoice(amt * 1000)
	m.W.LN.Scripts[inv.Hash] = &LNScript{Pay: mode}
	var q *MeltQuote
	var ins []*HProof
	m.rc.Quietly(func() {
		q, _ = m.User.ReqMeltQuote(mint, inv.Bolt11, 0)
		if q != nil {
			if ins = m.TakeFor(mint, q.Amount+q.Reserve); ins != nil {
				m.User.remove(mint, ins)
			}
		}
	})
	if q == nil || ins == nil {
		return
	}
	var mr *Resp
	m.begin()
	m.rc.S.Go(m.name("mpr.melt"), m.W.Ext, true, func() { mr = m.User.Melt(mint, q.ID, ins) })
	for i := 0; i < 2; i++ {
		name := fmt.Sprintf("%s.%d", m.name("mpr.poll"), i)
		m.rc.S.Go(name, m.W.Ext, true, func() {
			a := NewActor(m.W, name)
			for k := 0; k < 2; k++ {
				if i == 0 {
					a.CheckState(mint, []string{ins[0].Y()})
				} else {
					a.PollMeltQuote(mint, q.ID)
				}
				m.rc.S.Yield(m.W.Ext, "ext", "between-polls")
			}
		})
	}
	m.rc.S.Drive(false)
	m.rc.S.Probe("melt_poll_race_episode")
	if mr != nil {
		m.afterMelt(mint, q, ins, mr)
	}
	m.rc.Nontrivial = true
	// the harness knows the truth: ask right away
	var Ys []string
	for _, p := range ins {
		Ys = append(Ys, p.Y())
	}
	m.begin()
	m.rc.S.Run1(m.name("mpr.cs"), m.W.Ext, func() {
		if r := m.User.CheckState(mint, Ys); r.OK() {
			m.verifyStates(mint, Ys, r)
		}
	})
}

// StepCheckstate: query mixing known, unknown, repeated and malformed Ys.
func (m *MW) StepCheckstate() {
	mint := m.pickMint()
	n := 1 + m.T.Choose("cs.n", 6)
	var Ys []string
	usedPending := false
	for i := 0; i < n; i++ {
		switch m.T.Choose("cs.kind", 5) {
		case 0:
			if sp := m.Spent[mint]; len(sp) > 0 {
				Ys = append(Ys, sp[m.T.Choose("cs.si", len(sp))].Y())
				continue
			}
			fallthrough
		case 1:
			if pu := m.User.Purse[mint]; len(pu) > 0 {
				Ys = append(Ys, pu[m.T.Choose("cs.ui", len(pu))].Y())
				continue
			}
			fallthrough
		case 2:
			Ys = append(Ys, hY(randHex(16)))
		case 3:
			if len(Ys) > 0 {
				Ys = append(Ys, Ys[m.T.Choose("cs.rep", len(Ys))])
			} else {
				Ys = append(Ys, hY(randHex(16)))
			}
		case 4:
			// proofs of at most one pending melt per request: gonuts resolves the pending quotes of a
			// checkstate request in Go map order (one Lightning lookup each), which would not replay
			if len(m.Pending) > 0 && !usedPending {
				pm := m.Pending[m.T.Choose("cs.pm", len(m.Pending))]
				if pm.Mint == mint {
					usedPending = true
					Ys = append(Ys, pm.Ins[0].Y())
					continue
				}
			}
			Ys = append(Ys, "zz"+randHex(8))
		}
	}
	m.rc.Op("checkstate")
	m.begin()
	m.rc.S.Run1(m.name("cs"), m.W.Ext, func() {
		r := m.User.CheckState(mint, Ys)
		if r.OK() {
			m.verifyStates(mint, Ys, r)
		}
	})
}

// StepCheckTwoPending: ONE state check names proofs of two melts that are in flight, after one or
// both payments reached their outcome - the request that resolves them must answer with the states
// after resolution. gonuts walks the pending quotes of such a request in Go map order, one Lightning
// look-up each; the request is therefore made inline by the driver (no scheduling points, no event
// per seam), where both orders give the same log and - on a correct mint - the same answer.
func (m *MW) StepCheckTwoPending() {
	mint := m.pickMint()
	inflight := func() []*PendingMelt {
		var out []*PendingMelt
		for _, x := range m.Pending {
			if pay := m.W.LN.Payments[x.Key]; x.Known && x.Mint == mint && pay != nil && pay.Truth == ptInflight {
				unknown := false
				for _, p := range x.Ins {
					unknown = unknown || m.Unknown[p.Secret]
				}
				if !unknown {
					out = append(out, x)
				}
			}
		}
		return out
	}
	for tries := 0; len(inflight()) < 2 && tries < 3; tries++ {
		m.W.LN.ForceNextPay = "pending"
		m.StepMelt()
		m.W.LN.ForceNextPay = ""
	}
	pms := inflight()
	if len(pms) < 2 {
		return
	}
	pms = pms[len(pms)-2:]
	// outcomes: 0 failed, 1 succeeded, 2 still in flight; at least one of the two is final
	o := [2]int{m.T.Choose("c2p.o0", 3), m.T.Choose("c2p.o1", 3)}
	if o[0] == 2 && o[1] == 2 {
		o[m.T.Choose("c2p.which", 2)] = 0
	}
	m.rc.Op(fmt.Sprintf("checkstate-two-pending outcomes=%v", o))
	want := map[string]string{}
	for i, pm := range pms {
		switch o[i] {
		case 0:
			m.W.LN.ResolveInflight(pm.Key, false)
		case 1:
			m.W.LN.ResolveInflight(pm.Key, true)
		}
		for _, p := range pm.Ins {
			want[p.Y()] = []string{"UNSPENT", "SPENT", "PENDING"}[o[i]]
		}
	}
	var Ys []string
	for _, pm := range pms {
		for _, p := range pm.Ins {
			Ys = append(Ys, p.Y())
		}
	}
	// any order of the Ys
	for i := len(Ys) - 1; i > 0; i-- {
		j := m.T.Choose("c2p.shuffle", i+1)
		Ys[i], Ys[j] = Ys[j], Ys[i]
	}
	var r *Resp
	m.rc.Quietly(func() { r = m.User.CheckState(mint, Ys) })
	m.rc.S.Probe("c15_checkstate_two_pending")
	if r != nil && r.OK() && !m.Faulted {
		states, _ := r.Body["states"].([]any)
		for i, sv := range states {
			if i >= len(Ys) {
				break
			}
			sm, _ := sv.(map[string]any)
			st, _ := sm["state"].(string)
			if st != want[Ys[i]] {
				m.W.Book.Violate("C15.state_wrong", "two-pending|"+want[Ys[i]]+"->"+st,
					"a state check naming proofs of two pending melts (outcomes %v: 0 failed, 1 succeeded, 2 in flight) reports %s for Y %s, which is %s once the request has looked at the payments", o, st, short(Ys[i]), want[Ys[i]])
			}
			m.rc.S.Probe("c15_state_compared")
		}
	}
	m.settlePending()
	m.rc.Nontrivial = true
}

// verifyStates: the harness's own expectation for proofs whose state it knows exactly.
func (m *MW) verifyStates(mint string, Ys []string, r *Resp) {
	states, _ := r.Body["states"].([]any)
	if len(states) != len(Ys) || m.Faulted {
		return
	}
	exp := map[string]string{}
	wit := map[string]string{}
	for _, p := range m.User.Purse[mint] {
		exp[p.Y()] = "UNSPENT"
	}
	mbk := m.W.Book.Mint(mint)
	for _, p := range m.Spent[mint] {
		exp[p.Y()] = "SPENT"
		wit[p.Y()] = p.Witness
		// the witness it was spent with is the one in the request that consumed it on the wire (an
		// attacker's copy with another witness may have won a released proof)
		if r := mbk.Secrets[p.Secret]; r != nil && len(r.Cons) > 0 {
			wit[p.Y()] = r.Witness
		}
	}
	for _, pm := range m.Pending {
		if pm.Mint != mint || !pm.Known {
			continue
		}
		if pay := m.W.LN.Payments[pm.Key]; pay != nil && pay.Truth == ptInflight {
			for _, p := range pm.Ins {
				exp[p.Y()] = "PENDING"
			}
		} else {
			for _, p := range pm.Ins {
				delete(exp, p.Y())
			}
		}
	}
	for i, sv := range states {
		sm, _ := sv.(map[string]any)
		st, _ := sm["state"].(string)
		if want, ok := exp[Ys[i]]; ok {
			m.rc.S.Probe("c15_state_compared")
			if st != want {
				m.W.Book.Violate("C15.state_wrong", want+"->"+st, "checkstate reports %s for Y %s, harness knows it is %s", st, short(Ys[i]), want)
			} else if want == "SPENT" {
				got, _ := sm["witness"].(string)
				if wit[Ys[i]] != "" {
					m.rc.S.Probe("c15_witness_compared")
				}
				if got != wit[Ys[i]] {
					m.W.Book.Violate("C15.witness", "checkstate", "spent Y %s reported with witness %q, it was spent with %q", short(Ys[i]), got, wit[Ys[i]])
				}
			}
		} else if len(Ys[i]) == 66 {
			if _, known := m.knownY(mint, Ys[i]); !known && st != "UNSPENT" {
				m.W.Book.Violate("C15.state_wrong", "unknown->"+st, "checkstate reports %s for a Y nobody ever presented", st)
			}
		}
	}
}

func (m *MW) knownY(mint, y string) (*HProof, bool) {
	for _, p := range m.W.AllProofs {
		if p.Mint == mint && p.Y() == y {
			return p, true
		}
	}
	return nil, false
}

// StepRestore: restore query mixing signed and never-signed blinded messages.
func (m *MW) StepRestore() {
	mint := m.pickMint()
	mb := m.W.Book.Mint(mint)
	n := 1 + m.T.Choose("rs.n", 6)
	var outs []*HOutput
	ks := m.W.ActiveKeyset(mint)
	for i := 0; i < n; i++ {
		if len(mb.SigSeq) > 0 && m.T.Chance("rs.known", 2, 3) {
			b := mb.SigSeq[m.T.Choose("rs.i", len(mb.SigSeq))]
			if o := m.W.Outputs[b]; o != nil {
				outs = append(outs, o)
				continue
			}
		}
		o := m.W.NewOutput(1, ks.ID, "")
		delete(m.W.Outputs, o.B_) // never submitted for signing
		outs = append(outs, o)
	}
	m.rc.Op("restore")
	m.begin()
	m.rc.S.Run1(m.name("rs"), m.W.Ext, func() {
		m.User.Restore(mint, outs)
	})
}

// StepLargeRequest: ONE mint request with a large number of outputs (more than a storage layer would
// put into one statement or one batch), then everything is asked back through restore - before and,
// optionally, after a restart. Every restored signature must be the one originally returned for that
// very blinded message (the Book compares C_, amount, id, DLEQ).
func (m *MW) StepLargeRequest(n int, restart bool) {
	mint := m.pickMint()
	ks := m.W.ActiveKeyset(mint)
	m.rc.Op(fmt.Sprintf("large-request outputs=%d restart=%v", n, restart))
	amounts := make([]uint64, n)
	for i := range amounts {
		amounts[i] = 1 << uint(i%3) // 1, 2, 4, 1, 2, 4, ...
	}
	var total uint64
	for _, a := range amounts {
		total += a
	}
	var outs []*HOutput
	ok := false
	m.begin()
	m.rc.S.Run1(m.name("large"), m.W.Ext, func() {
		q, _ := m.User.ReqMintQuote(mint, total, false)
		if q == nil {
			return
		}
		m.W.LN.PayExternal(q.Hash)
		outs = m.W.NewOutputs(amounts, ks.ID)
		_, r := m.User.Mint(mint, q, outs, "")
		ok = r != nil && r.OK()
	})
	if !ok {
		return
	}
	m.rc.S.Probe("large_request_signed")
	if restart {
		m.StepRestart(false)
	}
	m.begin()
	m.rc.S.Run1(m.name("largers"), m.W.Ext, func() {
		for i := 0; i < len(outs); i += 64 {
			j := i + 64
			if j > len(outs) {
				j = len(outs)
			}
			m.User.Restore(mint, outs[i:j])
		}
	})
	m.rc.Nontrivial = true
}

// StepRestart: operator restarts the mint, optionally rotating the keyset with a fee from the set.
func (m *MW) StepRestart(allowRotate bool) {
	mint := m.pickMint()
	rotate := allowRotate && m.T.Chance("restart.rotate", 1, 2)
	if m.forceRotate {
		rotate = true
	}
	fees := m.Fees[mint]
	fee := uint64(0)
	if len(fees) > 0 {
		fee = fees[m.T.Choose("restart.fee", len(fees))]
	}
	if rotate {
		m.rc.Op(fmt.Sprintf("restart+rotate(%d)", fee))
	} else {
		m.rc.Op("restart")
	}
	m.rc.Quietly(func() {
		err := m.W.RestartMint(mint, func(c *gmint.Config) {
			c.RotateKeyset = rotate
			c.InputFeePpk = uint(fee)
		})
		if err != nil {
			m.W.Book.Violate("C07.restart_failed", "restart", "mint does not come up after clean restart: %v", err)
			return
		}
		m.W.RefreshKeysets(mint, fee)
	})
	if rotate {
		m.rc.S.Probe("rotation")
	}
}

// StepRotateRuntime: admin RPC path, Mint.RotateKeyset on the running mint.
func (m *MW) StepRotateRuntime() {
	mint := m.pickMint()
	fees := m.Fees[mint]
	fee := uint64(0)
	if len(fees) > 0 {
		fee = fees[m.T.Choose("rot.fee", len(fees))]
	}
	m.rc.Op(fmt.Sprintf("rotate-runtime(%d)", fee))
	node := m.W.Mints[mint]
	m.begin()
	m.rc.S.Run1(m.name("rotate"), node.Inc, func() {
		node.M.RotateKeyset(uint(fee))
	})
	m.rc.Quietly(func() { m.W.RefreshKeysets(mint, fee) })
	m.rc.S.Probe("rotation")
}

func (m *MW) StepClock() {
	d := []time.Duration{time.Second, 30 * time.Second, 6 * time.Minute, 2 * time.Hour}[m.T.Choose("clock.d", 4)]
	m.rc.Op("clock+" + d.String())
	m.rc.S.Sleep(d)
}

// ---- finale: faults off, resolve everything, drain audit ----

type AuditResult struct {
	RedeemableSat uint64
	Tried         int
	Accepted      int
}

// Finale resolves all in-flight payments, lets every pending melt reach its final
// state through polls, and runs the drain audit per mint.
func (m *MW) Finale() {
	S := m.rc.S
	S.Quiet = true
	S.Drain()
	for _, k := range m.W.LN.InflightKeys() {
		// hidden outcome: alternate deterministically on the payment sequence number
		p := m.W.LN.Payments[k]
		m.W.LN.ResolveInflight(k, p.Seq%2 == 0)
	}
	// every melt quote the book knows gets polled until it leaves PENDING (bounded)
	for _, mint := range m.Mints {
		mb := m.W.Book.Mint(mint)
		for _, qid := range mb.LQOrder {
			for k := 0; k < 3; k++ {
				st := RespState(m.User.PollMeltQuote(mint, qid))
				if st != "PENDING" {
					break
				}
			}
		}
	}
	m.settlePending()
	m.W.Book.FinalizeMelts()
	if m.BeforeAudit != nil {
		m.BeforeAudit()
	}
	for _, mint := range m.Mints {
		m.Audit(mint)
	}
}

// Audit is the drain audit (O-audit): every proof any actor ever obtained, plus
// every output whose signature can be restored, is presented individually in a
// swap. V_redeemable + Lightning outflow must not exceed Lightning inflow.
func (m *MW) Audit(mint string) AuditResult {
	W := m.W
	var res AuditResult
	node := W.Mints[mint]
	if node == nil || node.Inc == nil || !node.Inc.Alive {
		return res
	}
	aud := NewActor(W, "audit")
	// recover signatures of outputs nobody saw signed (lost responses, crashes)
	mb := W.Book.Mint(mint)
	var unk []*HOutput
	for _, b := range W.OutOrder {
		o := W.Outputs[b]
		if o == nil || mb.Sigs[b] != nil {
			continue
		}
		if ks := mb.Keysets[o.ID]; ks == nil {
			continue
		}
		unk = append(unk, o)
	}
	for i := 0; i < len(unk); i += 50 {
		j := i + 50
		if j > len(unk) {
			j = len(unk)
		}
		r := aud.Restore(mint, unk[i:j])
		if r.OK() {
			ro, _ := r.Body["outputs"].([]any)
			rs, _ := r.Body["signatures"].([]any)
			for k := range ro {
				om, _ := ro[k].(map[string]any)
				b, _ := om["B_"].(string)
				if o := W.Outputs[b]; o != nil && k < len(rs) {
					W.Unblind(mint, []*HOutput{o}, []any{rs[k]})
					S := m.rc.S
					S.Probe("audit_restored_sig")
				}
			}
		}
	}
	// distinct secrets
	seen := map[string]bool{}
	var all []*HProof
	for _, p := range W.AllProofs {
		if p.Mint == mint && !seen[p.Secret] {
			seen[p.Secret] = true
			all = append(all, p)
		}
	}
	sort.SliceStable(all, func(i, j int) bool { return all[i].Amount > all[j].Amount })
	ks := W.ActiveKeyset(mint)
	var carrier *HProof
	for _, p := range all {
		cp := *p
		fee := m.feeFor(mint, []*HProof{&cp})
		res.Tried++
		if cp.Amount > fee {
			outs := W.NewOutputs(Split(cp.Amount-fee), ks.ID)
			ps, r := aud.Swap(mint, []*HProof{&cp}, outs)
			if r.OK() {
				res.Accepted++
				res.RedeemableSat = satAdd(res.RedeemableSat, cp.Amount)
				if carrier == nil && len(ps) > 0 {
					carrier = ps[0]
					for _, x := range ps {
						if x.Amount > carrier.Amount {
							carrier = x
						}
					}
				}
			}
			continue
		}
		// dust (amount <= its own input fee): redeem together with a known-good carrier proof
		if carrier == nil {
			continue
		}
		ins := []*HProof{&cp, carrier}
		fee2 := m.feeFor(mint, ins)
		if SumH(ins) <= fee2 {
			continue
		}
		outs := W.NewOutputs(Split(SumH(ins)-fee2), ks.ID)
		ps, r := aud.Swap(mint, ins, outs)
		if r.OK() {
			res.Accepted++
			res.RedeemableSat = satAdd(res.RedeemableSat, cp.Amount)
			carrier = nil
			for _, x := range ps {
				if carrier == nil || x.Amount > carrier.Amount {
					carrier = x
				}
			}
		}
	}
	led := W.LN.ledger(mint)
	// payments that may still succeed count at their authorised maximum
	var maySucceed uint64
	for _, k := range W.LN.PayOrder {
		p := W.LN.Payments[k]
		if p.Mint == mint && p.Truth == ptInflight {
			maySucceed += p.AmountMsat + p.FeeLimitSat*1000
		}
	}
	m.rc.S.ProbeN("audit_proofs_tried", res.Tried)
	m.rc.S.ProbeN("audit_proofs_accepted", res.Accepted)
	// big integers: a mint that signed amounts near 2^64 must not slip through a wrapped sum
	lhsBig := new(big.Int).Mul(new(big.Int).SetUint64(res.RedeemableSat), big.NewInt(1000))
	lhsBig.Add(lhsBig, new(big.Int).SetUint64(led.OutflowMsat))
	lhsBig.Add(lhsBig, new(big.Int).SetUint64(maySucceed))
	lhs := res.RedeemableSat*1000 + led.OutflowMsat + maySucceed
	if !lhsBig.IsUint64() {
		lhs = ^uint64(0)
	}
	if lhsBig.Cmp(new(big.Int).SetUint64(led.InflowMsat)) > 0 {
		W.Book.Violate("C02.conservation", "audit", "mint %s: redeemable %d sat + Lightning outflow %d msat (+%d msat still possible) = %d msat exceeds Lightning inflow %d msat",
			mint, res.RedeemableSat, led.OutflowMsat, maySucceed, lhs, led.InflowMsat)
	}
	return res
}

// StepAdversarial: requests that try to get more out than goes in (C02 input space).
func (m *MW) StepAdversarial() {
	mint := m.pickMint()
	ins := m.pickProofs(mint, 1+m.T.Choose("adv.k", 3))
	if ins == nil {
		m.StepFund()
		return
	}
	mode := m.T.Choose("adv.mode", 12)
	if m.forceAdvMode > 0 {
		mode = m.forceAdvMode
	}
	m.rc.Op(fmt.Sprintf("adversarial%d", mode))
	ks := m.W.ActiveKeyset(mint)
	sum := SumH(ins)
	m.begin()
	m.rc.S.Run1(m.name("adv"), m.W.Ext, func() {
		a := m.Atk
		var r *Resp
		switch mode {
		case 0: // outputs whose sum wraps around uint64 to a small number
			o1 := m.W.NewOutput(1<<63, ks.ID, "")
			o2 := m.W.NewOutput(1<<63, ks.ID, "")
			o3 := m.W.NewOutput(1, ks.ID, "")
			_, r = a.Swap(mint, ins, []*HOutput{o1, o2, o3})
		case 1: // amount that is not a denomination
			_, r = a.Swap(mint, ins, []*HOutput{m.W.NewOutput(3, ks.ID, "")})
		case 2: // zero-amount output next to full-value outputs
			outs := m.W.NewOutputs(Split(sum), ks.ID)
			outs = append(outs, m.W.NewOutput(0, ks.ID, ""))
			_, r = a.Swap(mint, ins, outs)
		case 3: // outputs worth twice the inputs
			_, r = a.Swap(mint, ins, m.W.NewOutputs(Split(sum*2), ks.ID))
		case 4: // mint: outputs over the quote amount
			q, _ := a.ReqMintQuote(mint, 4, false)
			if q != nil {
				m.W.LN.PayExternal(q.Hash)
				_, r2 := a.Mint(mint, q, m.W.NewOutputs(Split(8), ks.ID), "")
				if !r2.OK() {
					a.Mint(mint, q, m.W.NewOutputs(Split(4), ks.ID), "")
				}
			}
			return
		case 5: // melt with inputs below amount + reserve
			inv := m.W.LN.NewExternalInvoice((sum + 5) * 1000)
			if q, _ := a.ReqMeltQuote(mint, inv.Bolt11, 0); q != nil {
				a.Melt(mint, q.ID, ins)
			}
			return
		case 6: // melt that covers amount but not the reserve/fee
			if sum < 2 {
				return
			}
			inv := m.W.LN.NewExternalInvoice(sum * 1000)
			if q, _ := a.ReqMeltQuote(mint, inv.Bolt11, 0); q != nil && q.Reserve+m.feeFor(mint, ins) > 0 {
				a.Melt(mint, q.ID, ins)
				m.rc.S.Probe("melt_without_reserve")
			}
			return
		case 8: // partial (MPP) melt of an invoice of this very mint: would settle the whole mint quote for a fraction
			q, _ := a.ReqMintQuote(mint, 64, false)
			if q == nil {
				return
			}
			lq, _ := a.ReqMeltQuote(mint, q.Request, 1000)
			m.rc.S.Probe("adv_mpp_internal")
			if lq != nil {
				one := m.User.Take(mint, lq.Amount+lq.Reserve+m.feeFor(mint, ins))
				if one != nil {
					r2 := a.Melt(mint, lq.ID, one)
					m.afterMelt(mint, lq, one, r2)
					a.Mint(mint, q, m.W.NewOutputs(Split(64), ks.ID), "")
				}
			}
			return
		case 10: // swap outputs, each of a real denomination, that sum to just below 2^64: adding the input
			// fee to them wraps around
			x := uint64(m.T.Choose("adv.below", 4))
			_, r = a.Swap(mint, ins, m.W.NewOutputs(SplitKeyed(^uint64(0)-x), ks.ID))
			m.rc.S.Probe("adv_swap_outputs_near_2_64")
		case 11: // mint request whose outputs (real denominations) sum to 2^64 + the quote amount
			q, _ := a.ReqMintQuote(mint, 8, false)
			if q == nil {
				return
			}
			m.W.LN.PayExternal(q.Hash)
			var amts []uint64
			for i := 0; i < 32; i++ {
				amts = append(amts, uint64(1)<<59)
			}
			amts = append(amts, Split(8)...)
			m.rc.S.Probe("adv_mint_outputs_wrap")
			if ps, mr := a.Mint(mint, q, m.W.NewOutputs(amts, ks.ID), ""); mr.OK() {
				m.User.Purse[mint] = append(m.User.Purse[mint], ps...)
			} else {
				// refused: the honest request goes through
				if ps2, mr2 := a.Mint(mint, q, m.W.NewOutputs(Split(8), ks.ID), ""); mr2.OK() {
					m.User.Purse[mint] = append(m.User.Purse[mint], ps2...)
				}
			}
			return
		case 9: // a forged invoice that reuses the payment hash of this mint's own mint quote, for 1 sat:
			// "settling internally" would mark the big quote paid for a melt of one sat
			q, _ := a.ReqMintQuote(mint, 64, false)
			if q == nil {
				return
			}
			forged, err := m.W.LN.ForgeInvoiceWithHash(q.Hash, 1000)
			if err != nil {
				return
			}
			m.rc.S.Probe("adv_forged_invoice_same_hash")
			lq, _ := a.ReqMeltQuote(mint, forged, 0)
			if lq != nil {
				one := m.User.Take(mint, lq.Amount+lq.Reserve+m.feeFor(mint, ins))
				if one != nil {
					r2 := a.Melt(mint, lq.ID, one)
					m.afterMelt(mint, lq, one, r2)
				}
			}
			if ps, mr := a.Mint(mint, q, m.W.NewOutputs(Split(64), ks.ID), ""); mr.OK() {
				m.User.Purse[mint] = append(m.User.Purse[mint], ps...)
			}
			return
		case 7: // the same output twice with different amounts
			o := m.W.NewOutput(1, ks.ID, "")
			o2 := *o
			o2.Amount = 2
			_, r = a.Swap(mint, ins, []*HOutput{o, &o2})
		}
		if r != nil && r.OK() {
			m.markSpent(mint, ins)
		}
	})
	m.checkStillSpendableMaybe(mint, ins)
}

func (m *MW) checkStillSpendableMaybe(mint string, ins []*HProof) {
	for _, p := range ins {
		if p.Gone {
			return
		}
	}
	m.checkStillSpendable(mint, ins, "adversarial")
}

// StepInternal: a melt at the mint pays a mint quote of the same mint (no Lightning).
func (m *MW) StepInternal() {
	mint := m.pickMint()
	purse := SumH(m.User.Purse[mint])
	if purse < 8 {
		m.StepFund()
		return
	}
	amount := uint64(1 + m.T.Choose("int.amt", int(purse/4)))
	lnFail := m.T.Chance("int.lnfail", 1, 4)
	ambBefore := m.W.LN.Cfg.AmbiguousPct
	m.rc.Op("internal")
	ks := m.W.ActiveKeyset(mint)
	m.begin()
	m.rc.S.Run1(m.name("int"), m.W.Ext, func() {
		q, _ := m.User.ReqMintQuote(mint, amount, false)
		if q == nil {
			return
		}
		lq, _ := m.User.ReqMeltQuote(mint, q.Request, 0)
		if lq == nil {
			return
		}
		need := lq.Amount + lq.Reserve
		ins := m.User.Take(mint, need+2)
		if ins == nil {
			return
		}
		// now and then the Lightning backend fails while the mint settles the pair
		if lnFail {
			m.W.LN.Cfg.InvoiceErrPct, m.W.LN.Cfg.AmbiguousPct = 100, 100
		}
		r := m.User.Melt(mint, lq.ID, ins)
		if lnFail {
			m.W.LN.Cfg.InvoiceErrPct, m.W.LN.Cfg.AmbiguousPct = 0, ambBefore
			m.rc.S.Probe("internal_settlement_backend_failure")
		}
		m.afterMelt(mint, lq, ins, r)
		if r.OK() && RespState(r) == "PAID" {
			m.rc.S.Probe("internal_settlement")
			m.User.Mint(mint, q, m.W.NewOutputs(Split(amount), ks.ID), "")
			// a second issuance must fail
			m.Atk.Mint(mint, q, m.W.NewOutputs(Split(amount), ks.ID), "")
		} else {
			// not settled: the quote's invoice is unpaid, a mint request must be refused (the Book
			// reports an issuance before payment, the audit the missing backing)
			if ps, mr := m.Atk.Mint(mint, q, m.W.NewOutputs(Split(amount), ks.ID), ""); mr.OK() {
				m.User.Purse[mint] = append(m.User.Purse[mint], ps...)
				m.Atk.Purse[mint] = nil
			}
		}
	})
}

// TakeFor returns proofs worth at least need plus their own input fee, or nil.
func (m *MW) TakeFor(mint string, need uint64) []*HProof {
	ins := m.User.Take(mint, need)
	for ins != nil && SumH(ins) < need+m.feeFor(mint, ins) {
		more := m.User.Take(mint, SumH(ins)+1)
		if more == nil || SumH(more) <= SumH(ins) {
			return nil
		}
		ins = more
	}
	return ins
}

// StepRotateInterrupted: a runtime rotation meets a storage error at one of its storage calls and
// the operator restarts the mint. Returns false if the mint did not come up again.
func (m *MW) StepRotateInterrupted() bool {
	mint := "A"
	fees := m.Fees[mint]
	fee := uint64(0)
	if len(fees) > 0 {
		fee = fees[m.T.Choose("irot.fee", len(fees))]
	}
	k := 1 + m.T.Choose("irot.k", 3)
	m.rc.Op(fmt.Sprintf("rotate-interrupted(fee=%d, db_error@%d)+restart", fee, k))
	node := m.W.Mints[mint]
	r0 := m.rc.S.Seq()
	m.rc.S.BeginEpisode(&FaultPlan{Node: mint, Kind: "db_error", SeamKind: "db", Pos: k})
	m.rc.S.Run1(m.name("irot"), node.Inc, func() { node.M.RotateKeyset(uint(fee)) })
	up := true
	m.rc.Quietly(func() {
		if err := m.W.RestartMint(mint, nil); err != nil {
			m.W.Book.Violate("C09.load_fails", "interrupted rotation", "mint does not load after an interrupted rotation: %v", err)
			up = false
			return
		}
		m.W.RefreshKeysets(mint, fee)
	})
	m.keysCacheStale = false
	m.rc.S.Probe("interrupted_rotation")
	m.W.Book.NoteRotation(mint, r0)
	return up
}

// StepRotateRuntimeConcurrent: Mint.RotateKeyset on the running mint while a swap and a
// mint request are in flight (scheduled against each other by the tape).
func (m *MW) StepRotateRuntimeConcurrent() {
	mint := m.pickMint()
	fees := m.Fees[mint]
	fee := uint64(0)
	if len(fees) > 0 {
		fee = fees[m.T.Choose("rot.fee", len(fees))]
	}
	m.rc.Op(fmt.Sprintf("rotate-runtime(%d)+traffic", fee))
	node := m.W.Mints[mint]
	ks := m.W.ActiveKeyset(mint)
	m.begin()
	m.rc.S.Go(m.name("rotate"), node.Inc, true, func() {
		node.M.RotateKeyset(uint(fee))
	})
	ins := m.pickProofs(mint, 1)
	if ins != nil {
		f := m.feeFor(mint, ins)
		if SumH(ins) > f {
			outs := m.W.NewOutputs(Split(SumH(ins)-f), ks.ID)
			name := m.name("rot.swap")
			m.rc.S.Go(name, m.W.Ext, true, func() {
				a := NewActor(m.W, name)
				ps, r := a.Swap(mint, ins, outs)
				if r.OK() {
					m.User.remove(mint, ins)
					m.Spent[mint] = append(m.Spent[mint], ins...)
					m.User.Purse[mint] = append(m.User.Purse[mint], ps...)
				}
			})
		}
	}
	m.rc.S.Drive(false)
	m.rc.Quietly(func() { m.W.RefreshKeysets(mint, fee) })
	m.rc.S.Probe("rotation")
	m.rc.S.Probe("rotation_runtime_concurrent")
}

// StepConcurrentQueries: swaps, state checks and restores of the same secrets / outputs
// race each other; the episode must be linearizable (porcupine).
func (m *MW) StepConcurrentQueries() {
	mint := m.pickMint()
	ins := m.pickProofs(mint, 1+m.T.Choose("cq.k", 2))
	if ins == nil {
		m.StepFund()
		return
	}
	fee := m.feeFor(mint, ins)
	if SumH(ins) <= fee {
		return
	}
	ks := m.W.ActiveKeyset(mint)
	nSwap := 1 + m.T.Choose("cq.nswap", 2)
	nCheck := 1 + m.T.Choose("cq.ncheck", 2)
	nRestore := m.T.Choose("cq.nrestore", 2)
	m.rc.Op(fmt.Sprintf("concurrent-queries s%d c%d r%d", nSwap, nCheck, nRestore))
	from := len(m.W.Net.Obs)
	Ys := make([]string, len(ins))
	for i, p := range ins {
		Ys[i] = p.Y()
	}
	if sp := m.Spent[mint]; len(sp) > 0 {
		Ys = append(Ys, sp[m.T.Choose("cq.spent", len(sp))].Y())
	}
	var allOuts [][]*HOutput
	won := false
	m.begin()
	for i := 0; i < nSwap; i++ {
		outs := m.W.NewOutputs(Split(SumH(ins)-fee), ks.ID)
		allOuts = append(allOuts, outs)
		name := fmt.Sprintf("%s.swap%d", m.name("cq"), i)
		m.rc.S.Go(name, m.W.Ext, true, func() {
			a := NewActor(m.W, name)
			ps, r := a.Swap(mint, ins, outs)
			if r.OK() {
				won = true
				m.User.Purse[mint] = append(m.User.Purse[mint], ps...)
			}
		})
	}
	for i := 0; i < nCheck; i++ {
		name := fmt.Sprintf("%s.check%d", m.name("cq"), i)
		twice := m.T.Chance("cq.twice", 1, 2)
		m.rc.S.Go(name, m.W.Ext, true, func() {
			a := NewActor(m.W, name)
			a.CheckState(mint, Ys)
			if twice {
				a.CheckState(mint, Ys)
			}
		})
	}
	for i := 0; i < nRestore; i++ {
		name := fmt.Sprintf("%s.restore%d", m.name("cq"), i)
		outs := allOuts[m.T.Choose("cq.which", len(allOuts))]
		m.rc.S.Go(name, m.W.Ext, true, func() {
			a := NewActor(m.W, name)
			a.Restore(mint, outs)
			a.Restore(mint, outs)
		})
	}
	m.rc.S.Drive(false)
	if won {
		m.User.remove(mint, ins)
		m.Spent[mint] = append(m.Spent[mint], ins...)
	}
	m.W.Book.LinCheckEpisode(from, "C15.not_linearizable")
	m.rc.S.Probe("c15_concurrent_episode")
	m.rc.Nontrivial = true
}
