package sim

import (
	"crypto/sha256"
	"encoding/hex"
	"encoding/json"
	"fmt"
	"strings"
	"time"

	"github.com/btcsuite/btcd/btcec/v2"
	"github.com/elnosh/gonuts/cashu"
	"github.com/elnosh/gonuts/cashu/nuts/nut11"
	"github.com/elnosh/gonuts/wallet"
)

// C12 (P2PK, NUT-11) and C13 (HTLC, NUT-14): spending attempts on locked proofs compared with the
// independent three-valued evaluator of locks.go; the simulator contributes the clock (locktime),
// positions inside multi-input requests, attempt/fail/retry histories and the token channel.

func init() {
	Register(&Profile{Prop: "C12", Fatal: []string{"C12."}, Run: func(rc *RunCtx) { runLocks(rc, false) }, Core: coreLocks})
	Register(&Profile{Prop: "C13", Fatal: []string{"C13."}, Run: func(rc *RunCtx) { runLocks(rc, true) }, Core: coreLocks})
}

const numInWit = 13
const numOutWit = 9

func coreLocks(tier string) []RunSpec {
	var out []RunSpec
	// every input-witness variant x {SIG_INPUTS, SIG_ALL} x locktime {absent, future, past}
	for wv := 0; wv < numInWit; wv++ {
		for flag := 0; flag < 2; flag++ {
			for lt := 0; lt < 3; lt++ {
				out = append(out, RunSpec{Profile: "core:witness", Params: map[string]int{"wv": wv, "flag": flag, "lt": lt}})
			}
		}
	}
	// locktime at numeric edge values ("never expires"): no witness / lock key / refund key
	for _, wv := range []int{0, 3, 10, 11} {
		for k := 0; k < 3; k++ {
			out = append(out, RunSpec{Profile: "core:locktime-edge", Params: map[string]int{"wv": wv, "flag": 0, "lt": 3, "k": k}})
		}
	}
	for ov := 0; ov < numOutWit; ov++ {
		for pos := 0; pos < 3; pos++ {
			out = append(out, RunSpec{Profile: "core:sigall-outputs", Params: map[string]int{"ov": ov, "flag": 1, "pos": pos, "wv": 3, "to": (ov + pos) % 3}})
		}
	}
	for k := 0; k < 4; k++ {
		out = append(out, RunSpec{Profile: "core:wallet-helpers", Params: map[string]int{"helpers": 1, "k": k}})
	}
	for k := 0; k < 2; k++ {
		out = append(out, RunSpec{Profile: "core:wallet-helpers-keys-without-threshold", Params: map[string]int{"helpers": 1, "pkonly": 1, "k": k}})
	}
	// one P2PK and one HTLC input, both SIG_ALL under the same keys, in both orders
	for k := 0; k < 2; k++ {
		out = append(out, RunSpec{Profile: "core:cross-kind-sigall-pair", Params: map[string]int{"crosskind": 1, "k": k}})
	}
	// two SIG_ALL inputs under different conditions, each validly signed, outputs signed for the first
	for k := 0; k < 4; k++ {
		out = append(out, RunSpec{Profile: "core:sigall-mixed-conditions", Params: map[string]int{"mixedcond": 1, "flag": 1, "lt": 0, "wv": 3, "ov": 0, "k": k}})
	}
	// one SIG_ALL input and one input under the same condition without the flag, in both orders, everything signed
	for order := 1; order <= 2; order++ {
		for k := 0; k < 3; k++ {
			out = append(out, RunSpec{Profile: "core:mixed-flags", Params: map[string]int{"mixedflag": order, "flag": 0, "lt": 0, "wv": 3, "ov": 0, "pos": 0, "k": k}})
		}
	}
	// a co-signer key listed twice, threshold one above the distinct keys that sign
	for n := 2; n <= 4; n++ {
		out = append(out, RunSpec{Profile: "core:duplicate-key", Params: map[string]int{"dupkey": 1, "nsigs": n, "wv": 6, "flag": 0, "lt": 0}})
	}
	return out
}

type lockRun struct {
	m    *MW
	kr   *KeyRing
	htlc bool
	prop string
}

func (lr *lockRun) drawCfg(rc *RunCtx) *LockCfg {
	T := rc.T
	now := nowUnix()
	c := &LockCfg{HTLC: lr.htlc, NSigs: -1, LockKey: 0}
	switch T.Pick("lock.flag", 3, 1, 3) {
	case 1:
		c.SigFlag = "SIG_INPUTS"
	case 2:
		c.SigFlag = "SIG_ALL"
	}
	if v, ok := rc.Spec.Params["flag"]; ok {
		c.SigFlag = []string{"", "SIG_ALL"}[v]
	}
	c.TagOrder = T.Pick("lock.tagorder", 2, 1, 1)
	if v, ok := rc.Spec.Params["to"]; ok {
		c.TagOrder = v
	}
	if T.Chance("lock.nsigs", 2, 3) {
		c.NSigs = T.Choose("lock.n", 5)
	}
	np := T.Choose("lock.npk", 4)
	for i := 0; i < np; i++ {
		c.Pubkeys = append(c.Pubkeys, 1+i)
	}
	if np > 0 && T.Chance("lock.pkdup", 1, 8) {
		c.Pubkeys = append(c.Pubkeys, c.Pubkeys[0]) // a key listed twice
	}
	if rc.P("dupkey", 0) == 1 {
		c.Pubkeys = []int{1, 2, 1}
		c.NSigs = rc.P("nsigs", 3)
	}
	lt := T.Pick("lock.lt", 6, 4, 4, 1)
	if v, ok := rc.Spec.Params["lt"]; ok {
		lt = v
	}
	switch lt {
	case 1:
		c.Locktime = now + int64(300+T.Choose("lock.future", 3000))
	case 2:
		c.Locktime = now - int64(1+T.Choose("lock.past", 3000))
	case 3:
		// "never expires": numeric edge values far in the future
		c.Locktime = []int64{1 << 31, 1<<32 + 5, 1 << 62, 9223371974719179008, 1<<63 - 1}[T.Choose("lock.edge", 5)]
	}
	nr := T.Choose("lock.nrefund", 3)
	for i := 0; i < nr; i++ {
		c.Refund = append(c.Refund, 4+i)
	}
	if lr.htlc {
		var pre [32]byte
		copy(pre[:], []byte(randHex(16)))
		c.Preimage = hex.EncodeToString(pre[:])
		h := sha256.Sum256(pre[:])
		c.Data = hex.EncodeToString(h[:])
		c.HashKind = T.Pick("lock.hashkind", 8, 1, 1)
		switch c.HashKind {
		case 1:
			c.Data = c.Data[:40]
		case 2:
			c.Data = "zz" + c.Data[2:]
		}
	} else {
		c.Data = lr.kr.PubHex(0)
	}
	return c
}

// inputWitness builds witness variant wv for a locked proof. Returns the witness string and a label.
func (lr *lockRun) inputWitness(T *Tape, c *LockCfg, secret string, wv int) (string, string) {
	kr := lr.kr
	msg := []byte(secret)
	threshold := 1
	if c.NSigs > 0 {
		threshold = c.NSigs
	}
	// keys authorised before locktime, in order
	var auth []int
	if !c.HTLC {
		auth = append(auth, c.LockKey)
	}
	if c.NSigs > 0 {
		auth = append(auth, c.Pubkeys...)
	}
	uniq := []int{}
	seen := map[int]bool{}
	for _, k := range auth {
		if !seen[k] {
			seen[k] = true
			uniq = append(uniq, k)
		}
	}
	var sigs []string
	label := ""
	switch wv {
	case 0:
		label = "none"
		if !c.HTLC {
			return "", label
		}
	case 1:
		return "garbage{", "garbage"
	case 2:
		label = "empty-sig-list"
		sigs = []string{}
	case 3:
		label = "exact-threshold"
		for i := 0; i < threshold && i < len(uniq); i++ {
			sigs = append(sigs, SignMsg(kr.Priv[uniq[i]], msg, 0))
		}
	case 4:
		label = "too-few"
		for i := 0; i < threshold-1 && i < len(uniq); i++ {
			sigs = append(sigs, SignMsg(kr.Priv[uniq[i]], msg, 0))
		}
	case 5:
		label = "duplicate-identical"
		if len(uniq) > 0 {
			s := SignMsg(kr.Priv[uniq[0]], msg, 0)
			for i := 0; i < threshold || i < 2; i++ {
				sigs = append(sigs, s)
			}
		}
	case 6:
		label = "same-key-different-sigs"
		// distinct keys sign first, then the last key signs again with other nonces until the count is reached
		n := 0
		for i := 0; i < len(uniq) && n < threshold-1; i++ {
			sigs = append(sigs, SignMsg(kr.Priv[uniq[i]], msg, 0))
			n++
		}
		if len(uniq) > 0 {
			last := uniq[len(uniq)-1]
			if n > 0 {
				last = uniq[(n-1)%len(uniq)]
			}
			for v := 1; n < threshold+1; v++ {
				sigs = append(sigs, SignMsg(kr.Priv[last], msg, v))
				n++
			}
		}
	case 7:
		label = "foreign-key"
		for i := 0; i < threshold; i++ {
			sigs = append(sigs, SignMsg(kr.Priv[6], msg, i))
		}
	case 8:
		label = "wrong-message"
		for i := 0; i < threshold && i < len(uniq); i++ {
			sigs = append(sigs, SignMsg(kr.Priv[uniq[i]], []byte(secret+"x"), 0))
		}
	case 9:
		label = "more-than-threshold"
		for _, k := range uniq {
			sigs = append(sigs, SignMsg(kr.Priv[k], msg, 0))
		}
	case 10:
		label = "refund-key"
		for _, k := range c.Refund {
			sigs = append(sigs, SignMsg(kr.Priv[k], msg, 0))
		}
		if len(c.Refund) == 0 {
			sigs = append(sigs, SignMsg(kr.Priv[4], msg, 0))
		}
	case 11:
		label = "lock-key-only"
		sigs = append(sigs, SignMsg(kr.Priv[c.LockKey], msg, 0))
	case 12:
		// only keys of the pubkeys tag sign (not the lock key): they are authorised only when a
		// threshold is set
		label = "cosigners-only"
		n := threshold
		if n < 1 {
			n = 1
		}
		seenK := map[int]bool{}
		for _, k := range c.Pubkeys {
			if len(sigs) >= n {
				break
			}
			if (!c.HTLC && k == c.LockKey) || seenK[k] {
				continue
			}
			seenK[k] = true
			sigs = append(sigs, SignMsg(kr.Priv[k], msg, 0))
		}
		if sigs == nil {
			sigs = []string{}
		}
	}
	w := map[string]any{}
	if sigs != nil {
		w["signatures"] = sigs
	}
	if c.HTLC {
		pv := T.Pick("wit.preimage", 8, 1, 1, 1, 1, 1, 1)
		switch pv {
		case 4:
			// the right preimage followed by something that is not hex: has no hex decoding
			w["preimage"] = c.Preimage + []string{"zz", " ", "\n", "g0"}[T.Choose("wit.suffix", 4)]
			label += "+right-preimage-nonhex-suffix"
		case 5:
			w["preimage"] = c.Preimage + "a" // odd number of digits
			label += "+right-preimage-odd-nibble"
		case 6:
			w["preimage"] = strings.ToUpper(c.Preimage) // same bytes, upper-case hex
			label += "+right-preimage-uppercase"
		case 0:
			w["preimage"] = c.Preimage
			label += "+right-preimage"
		case 1:
			w["preimage"] = randHex(32)
			label += "+wrong-preimage"
		case 2:
			w["preimage"] = "zz" + c.Preimage[2:]
			label += "+nonhex-preimage"
		case 3:
			w["preimage"] = ""
			label += "+empty-preimage"
		}
		if sigs == nil {
			w["signatures"] = []string{}
		}
	}
	b, _ := json.Marshal(w)
	return string(b), label
}

// outputWitness signs an output for SIG_ALL according to variant ov.
func (lr *lockRun) outputWitness(c *LockCfg, o *HOutput, idx, ov int) string {
	kr := lr.kr
	bb, _ := hex.DecodeString(o.B_)
	threshold := 1
	if c.NSigs > 0 {
		threshold = c.NSigs
	}
	var auth []int
	if !c.HTLC {
		auth = append(auth, c.LockKey)
	}
	if c.NSigs > 0 {
		auth = append(auth, c.Pubkeys...)
	}
	uniq := []int{}
	seen := map[int]bool{}
	for _, k := range auth {
		if !seen[k] {
			seen[k] = true
			uniq = append(uniq, k)
		}
	}
	var sigs []string
	switch ov {
	case 0: // all outputs correctly signed
		for i := 0; i < threshold && i < len(uniq); i++ {
			sigs = append(sigs, SignMsg(kr.Priv[uniq[i]], bb, 0))
		}
	case 1: // unsigned
		return ""
	case 2: // only the first output signed
		if idx > 0 {
			return ""
		}
		for i := 0; i < threshold && i < len(uniq); i++ {
			sigs = append(sigs, SignMsg(kr.Priv[uniq[i]], bb, 0))
		}
	case 3: // foreign key
		for i := 0; i < threshold; i++ {
			sigs = append(sigs, SignMsg(kr.Priv[6], bb, i))
		}
	case 4: // signed over the hex string of B_ instead of its bytes
		for i := 0; i < threshold && i < len(uniq); i++ {
			sigs = append(sigs, SignMsg(kr.Priv[uniq[i]], []byte(o.B_), 0))
		}
	case 5, 6, 7, 8: // correctly signed; the HTLC preimage is empty / absent / wrong / not hex
		for i := 0; i < threshold && i < len(uniq); i++ {
			sigs = append(sigs, SignMsg(kr.Priv[uniq[i]], bb, 0))
		}
	}
	w := map[string]any{"signatures": sigs}
	if c.HTLC {
		switch ov {
		case 5:
			w["preimage"] = ""
		case 6:
		case 7:
			w["preimage"] = strings.Repeat("ab", 32)
		case 8:
			w["preimage"] = "zz" + c.Preimage
		default:
			w["preimage"] = c.Preimage
		}
	}
	b, _ := json.Marshal(w)
	return string(b)
}

func (lr *lockRun) step(rc *RunCtx, i int) {
	m := lr.m
	W := m.W
	T := rc.T
	mint := "A"
	c := lr.drawCfg(rc)
	ks := W.ActiveKeyset(mint)
	nLocked := 1 + T.Choose("lock.count", 2)
	if rc.P("mixedcond", 0) == 1 || rc.P("mixedflag", 0) > 0 {
		nLocked = 2
	}
	src := m.pickProofs(mint, 2)
	if src == nil || SumH(src) < uint64(nLocked)+2 {
		m.StepFund()
		return
	}
	// sometimes the second locked proof is under a *different* condition (other lock key / other co-signers,
	// same n_sigs and flag): each input carries a witness valid for its own condition
	var c2 *LockCfg
	if nLocked == 2 && (T.Chance("lock.mixedcond", 1, 4) || rc.P("mixedcond", 0) == 1) {
		cp := *c
		c2 = &cp
		if !lr.htlc {
			c2.LockKey = 3
			c2.Data = lr.kr.PubHex(3)
		}
		if len(c.Pubkeys) > 0 {
			c2.Pubkeys = append([]int{}, c.Pubkeys...)
			c2.Pubkeys[0] = 5
		} else if lr.htlc {
			c2 = nil
		}
	}
	// ... or under the SAME condition but with the other signature flag: one input SIG_ALL, one not, in
	// either order (a transaction with a SIG_ALL input needs every input to be SIG_ALL)
	mixedFlag := false
	if nLocked == 2 && c2 == nil && rc.P("mixedcond", 0) == 0 && (T.Chance("lock.mixedflag", 1, 5) || rc.P("mixedflag", 0) > 0) {
		cp := *c
		c2 = &cp
		order := T.Choose("lock.mixedflag.order", 2)
		if v := rc.P("mixedflag", 0); v > 0 {
			order = v - 1
		}
		other := []string{"", "SIG_INPUTS"}[T.Choose("lock.mixedflag.other", 2)]
		if order == 0 {
			c.SigFlag, c2.SigFlag = other, "SIG_ALL" // the input that is not SIG_ALL comes first
		} else {
			c.SigFlag, c2.SigFlag = "SIG_ALL", other
		}
		mixedFlag = true
		rc.S.Probe(lr.prop + "_mixed_flags")
	}
	cfgOf := func(k int) *LockCfg {
		if k == 1 && c2 != nil {
			return c2
		}
		return c
	}
	rc.Op("lock " + c.String())
	if c2 != nil {
		rc.Op("second lock " + c2.String())
		rc.S.Probe(lr.prop + "_mixed_conditions")
	}
	// 1. obtain locked proofs through a real swap
	var locked []*HProof
	var change []*HProof
	rc.S.BeginEpisode()
	rc.S.Run1(m.name("lock"), W.Ext, func() {
		fee := m.feeFor(mint, src)
		total := SumH(src) - fee
		var outs []*HOutput
		lockedAmt := uint64(0)
		for k := 0; k < nLocked; k++ {
			a := uint64(1) << uint(T.Choose("lock.amtexp", 3))
			if lockedAmt+a >= total {
				a = 1
			}
			outs = append(outs, W.NewOutput(a, ks.ID, cfgOf(k).Secret(lr.kr)))
			lockedAmt += a
		}
		if lockedAmt > total {
			return
		}
		chg := W.NewOutputs(Split(total-lockedAmt), ks.ID)
		ps, r := m.User.Swap(mint, src, append(outs, chg...))
		if !r.OK() {
			return
		}
		m.Spent[mint] = append(m.Spent[mint], src...)
		locked = ps[:nLocked]
		change = ps[nLocked:]
	})
	if locked == nil {
		return
	}
	// locked proofs are not plain purse content
	m.User.remove(mint, locked)
	_ = change
	sigAll := c.SigFlag == "SIG_ALL" || (mixedFlag && c2.SigFlag == "SIG_ALL")
	// 2. attempts
	nAttempts := 1 + T.Choose("att.n", 3)
	for a := 0; a < nAttempts; a++ {
		if T.Chance("att.clock", 1, 4) {
			// jump across (or towards) the locktime between attempts
			d := []time.Duration{10 * time.Minute, time.Hour, 2 * time.Hour}[T.Choose("att.jump", 3)]
			m.rc.S.Sleep(d)
		}
		wv := T.Choose("att.wv", numInWit)
		if a == nAttempts-1 && T.Chance("att.lastgood", 1, 2) {
			wv = 3
		}
		if v, ok := rc.Spec.Params["wv"]; ok && a == 0 {
			wv = v
		}
		ov := T.Pick("att.ov", 4, 1, 1, 1, 1, 1, 1, 1, 1)
		if v, ok := rc.Spec.Params["ov"]; ok && a == 0 {
			ov = v
		}
		useMelt := !sigAll && T.Chance("att.melt", 1, 6) || sigAll && T.Chance("att.meltsigall", 1, 8)
		nPlain := T.Choose("att.nplain", 3)
		pos := T.Choose("att.pos", nPlain+1)
		if v, ok := rc.Spec.Params["pos"]; ok && a == 0 {
			nPlain = 2
			pos = v
		}
		plain := m.pickProofs(mint, nPlain)
		var ins []*HProof
		var label string
		for k, lp := range locked {
			cp := *lp
			w, l := lr.inputWitness(T, cfgOf(k), lp.Secret, wv)
			cp.Witness = w
			label = l
			if c2 != nil && mixedFlag {
				label += "+mixedflag"
			} else if c2 != nil {
				label += "+mixedcond"
			}
			if k == 0 {
				ins = append(ins, plain[:min(pos, len(plain))]...)
			}
			ins = append(ins, &cp)
		}
		if pos < len(plain) {
			ins = append(ins, plain[pos:]...)
		}
		fee := m.feeFor(mint, ins)
		if SumH(ins) <= fee {
			return
		}
		var r *Resp
		var verdict Verdict
		var why string
		now := nowUnix()
		jins := make([]JProof, len(ins))
		for k, p := range ins {
			jins[k] = JProof{Amount: p.Amount, ID: p.ID, Secret: p.Secret, C: p.C, Witness: p.Witness}
		}
		kind := "swap"
		internalMelt := useMelt && T.Chance("att.meltinternal", 1, 3)
		rc.S.BeginEpisode()
		rc.S.Run1(fmt.Sprintf("%s.att%d", m.name("lock"), a), W.Ext, func() {
			if useMelt {
				kind = "melt"
				amt := (SumH(ins) - fee) / 2
				if amt == 0 {
					amt = 1
				}
				bolt := ""
				if internalMelt {
					// the invoice of a mint quote of this very mint: settled internally, no payment leaves
					if mq, _ := m.Atk.ReqMintQuote(mint, amt, false); mq != nil {
						bolt = mq.Request
						kind = "melt-internal"
					}
				}
				if bolt == "" {
					bolt = W.LN.NewExternalInvoice(amt * 1000).Bolt11
				}
				q, _ := m.Atk.ReqMeltQuote(mint, bolt, 0)
				if q == nil || q.Amount+q.Reserve+fee > SumH(ins) {
					return
				}
				verdict, why = EvalMelt(jins, now)
				r = m.Atk.Melt(mint, q.ID, ins)
				return
			}
			outs := W.NewOutputs(Split(SumH(ins)-fee), ks.ID)
			if sigAll || T.Chance("att.signouts", 1, 8) {
				for k, o := range outs {
					o.Witness = lr.outputWitness(c, o, k, ov)
				}
				label += fmt.Sprintf("/out%d", ov)
			}
			jouts := make([]JOutput, len(outs))
			for k, o := range outs {
				jouts[k] = JOutput{Amount: o.Amount, ID: o.ID, B_: o.B_, Witness: o.Witness}
			}
			verdict, why = EvalSwap(jins, jouts, now)
			_, r = m.Atk.Swap(mint, ins, outs)
		})
		if r == nil || r.Err != nil {
			continue
		}
		accepted := r.OK()
		_ = internalMelt
		rc.S.Probe(lr.prop + "_attempt_" + verdict.String())
		rc.S.Probe(fmt.Sprintf("%s_wv_%02d", lr.prop, wv))
		rc.Nontrivial = true
		after := c.Locktime > 0 && now > c.Locktime
		fp := fmt.Sprintf("%s|%s|sigall=%v|plainbefore=%v|afterlock=%v|%s", kind, label, sigAll, pos > 0 && len(plain) > 0, after, verdict)
		switch {
		case verdict == MustAccept && !accepted:
			W.Book.Violate(lr.prop+".rejected_valid", fp, "%s with witness [%s] on lock {%s} must be accepted (%s) but was refused: %v", kind, label, c, why, r)
		case verdict == MustReject && accepted:
			W.Book.Violate(lr.prop+".accepted_invalid", fp, "%s with witness [%s] on lock {%s} must be refused (%s) but was accepted", kind, label, c, why)
		}
		if accepted {
			m.User.remove(mint, plain)
			m.Spent[mint] = append(m.Spent[mint], plain...)
			if kind == "swap" {
				sigs, _ := r.Body["signatures"].([]any)
				_ = sigs
			}
			return
		}
	}
}

// helpersStep: wallets lock ecash for each other with the library's own helpers and redeem it with them
// (AddSignatureToInputs/Outputs, AddWitnessHTLC, AddWitnessHTLCToOutputs through Receive/ReceiveHTLC).
func helpersStep(ww *WW, htlc bool, prop string) {
	T := ww.T
	w := ww.Wallets[0]
	to := ww.Wallets[1]
	if T.Chance("help.dir", 1, 2) {
		w, to = to, w
	}
	mint := mintNameOfURL(ww.node(w).Mint)
	if ww.balanceAt(w, mint) < 16 {
		ww.StepMint()
		return
	}
	amount := uint64(1 + T.Choose("help.amt", 12))
	sigall := T.Chance("help.sigall", 1, 2)
	nsig := T.Chance("help.nsig", 1, 2)
	fees := T.Chance("help.fees", 1, 2)
	// keys listed on an HTLC without a threshold: the helper adds the preimage alone
	pkonly := htlc && !sigall && !nsig && T.Chance("help.pkonly", 1, 2)
	if htlc && ww.rc.P("pkonly", 0) == 1 {
		sigall, nsig, pkonly = false, false, true
	}
	ww.op(fmt.Sprintf("helpers htlc=%v sigall=%v nsig=%v pkonly=%v", htlc, sigall, nsig, pkonly))
	toKey := ww.node(to).W.GetReceivePubkey()
	pre := randHex(32)
	var proofs cashu.Proofs
	var err error
	ww.W.WalletOp(w, ww.name("hlock."+w), nil, func(wl *wallet.Wallet) {
		tags := &nut11.P2PKTags{}
		if sigall {
			tags.Sigflag = nut11.SIGALL
		}
		if htlc {
			if nsig || sigall {
				tags.NSigs = 1
				tags.Pubkeys = []*btcec.PublicKey{toKey}
			} else if pkonly {
				tags.Pubkeys = []*btcec.PublicKey{toKey}
				ww.rc.S.Probe(prop + "_helper_pubkeys_without_threshold")
			}
			proofs, err = wl.HTLCLockedProofs(amount, ww.mintURL(mint), pre, tags, fees)
		} else {
			proofs, err = wl.SendToPubkey(amount, ww.mintURL(mint), toKey, tags, fees)
		}
	})
	if err != nil {
		return
	}
	s, terr := MakeToken(proofs, ww.mintURL(mint), false, false)
	if terr != nil {
		return
	}
	var rerr error
	ww.W.WalletOp(to, ww.name("hrecv."+to), nil, func(wl *wallet.Wallet) {
		t, _ := cashu.DecodeToken(s)
		if htlc {
			_, rerr = wl.ReceiveHTLC(t, pre)
		} else {
			_, rerr = wl.Receive(t, false)
		}
	})
	ww.rc.S.Probe(prop + "_helper_redeem")
	ww.rc.Nontrivial = true
	if rerr != nil && proofs.Amount() > ww.feeOfProofs(mint, proofs) {
		ww.W.Book.Violate(prop+".helper_rejected", fmt.Sprintf("htlc=%v|sigall=%v|nsig=%v|pkonly=%v", htlc, sigall, nsig, pkonly),
			"the witness produced by the library's own helpers (htlc=%v sigall=%v n_sigs=%v keys-without-threshold=%v) was refused: %v", htlc, sigall, nsig, pkonly, rerr)
	}
}

// crossKindStep: a swap whose two SIG_ALL inputs are of different kinds - one P2PK, one HTLC - under the
// same keys and threshold, each input with a witness valid for itself, every output signed (and, when
// the HTLC input comes first, carrying the preimage). The inputs do not share one condition: the
// statement says such a swap does not succeed, whatever the order.
func crossKindStep(rc *RunCtx, m *MW, lr *lockRun, htlcFirst bool) {
	W := m.W
	mint := "A"
	ks := W.ActiveKeyset(mint)
	kr := lr.kr
	var pre [32]byte
	copy(pre[:], []byte(randHex(16)))
	h := sha256.Sum256(pre[:])
	cP := &LockCfg{Data: kr.PubHex(0), LockKey: 0, NSigs: 1, Pubkeys: []int{1}, SigFlag: "SIG_ALL"}
	cH := &LockCfg{HTLC: true, Data: hex.EncodeToString(h[:]), Preimage: hex.EncodeToString(pre[:]), NSigs: 1, Pubkeys: []int{1, 0}, SigFlag: "SIG_ALL"} // key order as the mint lists a P2PK lock's keys: co-signers, then the lock key
	src := m.pickProofs(mint, 2)
	if src == nil || SumH(src) < 6 {
		m.StepFund()
		return
	}
	rc.Op(fmt.Sprintf("cross-kind SIG_ALL pair htlcFirst=%v", htlcFirst))
	var locked []*HProof
	rc.S.BeginEpisode()
	rc.S.Run1(m.name("xklock"), W.Ext, func() {
		fee := m.feeFor(mint, src)
		total := SumH(src) - fee
		if total < 3 {
			return
		}
		outs := []*HOutput{W.NewOutput(1, ks.ID, cP.Secret(kr)), W.NewOutput(1, ks.ID, cH.Secret(kr))}
		chg := W.NewOutputs(Split(total-2), ks.ID)
		ps, r := m.User.Swap(mint, src, append(outs, chg...))
		if !r.OK() || len(ps) < 2 {
			return
		}
		m.Spent[mint] = append(m.Spent[mint], src...)
		locked = ps[:2]
	})
	if locked == nil {
		return
	}
	for _, p := range locked {
		m.User.remove(mint, []*HProof{p}) // not ordinary purse money
	}
	pP, pH := locked[0], locked[1]
	wit := func(v map[string]any) string { b, _ := json.Marshal(v); return string(b) }
	pP.Witness = wit(map[string]any{"signatures": []string{SignMsg(kr.Priv[0], []byte(pP.Secret), 0)}})
	pH.Witness = wit(map[string]any{"preimage": cH.Preimage, "signatures": []string{SignMsg(kr.Priv[0], []byte(pH.Secret), 0)}})
	ins := []*HProof{pP, pH}
	if htlcFirst {
		ins = []*HProof{pH, pP}
	}
	fee := m.feeFor(mint, ins)
	if SumH(ins) <= fee {
		return
	}
	outs := W.NewOutputs(Split(SumH(ins)-fee), ks.ID)
	for _, o := range outs {
		bb, _ := hex.DecodeString(o.B_)
		w := map[string]any{"signatures": []string{SignMsg(kr.Priv[0], bb, 0)}}
		if htlcFirst {
			w["preimage"] = cH.Preimage
		}
		o.Witness = wit(w)
	}
	var r *Resp
	rc.S.BeginEpisode()
	rc.S.Run1(m.name("xkswap"), W.Ext, func() { _, r = m.User.Swap(mint, ins, outs) })
	rc.S.Probe(lr.prop + "_cross_kind_sigall_pair")
	rc.Nontrivial = true
	if r != nil && r.OK() {
		m.Spent[mint] = append(m.Spent[mint], ins...)
		W.Book.Violate(lr.prop+".accepted_invalid", fmt.Sprintf("swap|cross-kind-sigall|htlcFirst=%v|must-reject", htlcFirst),
			"swap with one P2PK and one HTLC input, both SIG_ALL under the same keys (HTLC first: %v), was accepted although its inputs do not share one condition", htlcFirst)
	}
}

func runLocks(rc *RunCtx, htlc bool) {
	T := rc.T
	prop := "C12"
	if htlc {
		prop = "C13"
	}
	fee := []uint{0, 0, 100}[T.Choose("cfg.fee", 3)]
	if rc.P("helpers", 0) == 1 || (rc.Spec.Profile == "random" && T.Chance("cfg.helpers", 1, 4)) {
		ww := rc.NewWalletWorld(LNConfig{FeePolicy: 1}, []uint{fee}, 2)
		for i := range ww.Wallets {
			ww.step = -1 - i
			ww.StepMint()
		}
		rc.StepLoop(2, 8, func(i int) {
			ww.step = i
			helpersStep(ww, htlc, prop)
		})
		return
	}
	rc.NewMintWorld(LNConfig{FeePolicy: 1}, MintOpts{Fee: fee})
	m := NewMW(rc, "A")
	m.Fees = map[string][]uint64{"A": {uint64(fee)}}
	rc.Quietly(func() { m.User.Fund("A", 255); m.User.Fund("A", 255) })
	lr := &lockRun{m: m, kr: NewKeyRing(7), htlc: htlc, prop: prop}
	rc.StepLoop(2, 10, func(i int) {
		m.step = i
		if rc.P("crosskind", 0) == 1 || (rc.Spec.Profile == "random" && T.Chance("lock.crosskind", 1, 12)) {
			crossKindStep(rc, m, lr, rc.P("k", T.Choose("lock.crosskind.order", 2))%2 == 1 || (htlc && rc.P("crosskind", 0) == 0))
			return
		}
		lr.step(rc, i)
	})
	m.Finale()
}
