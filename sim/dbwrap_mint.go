package sim

import (
	"errors"
	"fmt"

	"github.com/elnosh/gonuts/cashu"
	"github.com/elnosh/gonuts/cashu/nuts/nut04"
	"github.com/elnosh/gonuts/cashu/nuts/nut05"
	"github.com/elnosh/gonuts/mint/storage"
)

// ErrInjectedDB is what an injected storage failure looks like to the code under test.
var ErrInjectedDB = errors.New("SIMFAULT-DB disk I/O error")

// SeamCall is one entry of the seam log.
type SeamCall struct {
	Seq   int
	Node  string
	Task  string
	Label string
	Err   bool
}

// simMintDB wraps the real SQLite storage: Yield -> fault decision -> inner call -> seam log.
type simMintDB struct {
	s     *Sim
	inc   *Inc
	inner storage.MintDB
	log   *[]SeamCall
}

func (d *simMintDB) pre(label string) bool {
	inj := d.s.Yield(d.inc, "db", label)
	task := "driver"
	if t := d.s.CurrentTask(); t != nil {
		task = t.Name
	}
	*d.log = append(*d.log, SeamCall{d.s.Seq(), d.inc.Node, task, label, inj})
	return inj
}

func (d *simMintDB) SaveSeed(b []byte) error {
	if d.pre("db.SaveSeed") {
		return ErrInjectedDB
	}
	return d.inner.SaveSeed(b)
}
func (d *simMintDB) GetSeed() ([]byte, error) {
	if d.pre("db.GetSeed") {
		return nil, ErrInjectedDB
	}
	return d.inner.GetSeed()
}
func (d *simMintDB) SaveKeyset(k storage.DBKeyset) error {
	if d.pre("db.SaveKeyset " + k.Id) {
		return ErrInjectedDB
	}
	return d.inner.SaveKeyset(k)
}
func (d *simMintDB) GetKeysets() ([]storage.DBKeyset, error) {
	if d.pre("db.GetKeysets") {
		return nil, ErrInjectedDB
	}
	return d.inner.GetKeysets()
}
func (d *simMintDB) UpdateKeysetActive(id string, active bool) error {
	if d.pre(fmt.Sprintf("db.UpdateKeysetActive %s %v", id, active)) {
		return ErrInjectedDB
	}
	return d.inner.UpdateKeysetActive(id, active)
}
func (d *simMintDB) SaveProofs(p cashu.Proofs) error {
	if d.pre(fmt.Sprintf("db.SaveProofs n=%d", len(p))) {
		return ErrInjectedDB
	}
	return d.inner.SaveProofs(p)
}
func (d *simMintDB) GetProofsUsed(Ys []string) ([]storage.DBProof, error) {
	if d.pre(fmt.Sprintf("db.GetProofsUsed n=%d", len(Ys))) {
		return nil, ErrInjectedDB
	}
	return d.inner.GetProofsUsed(Ys)
}
func (d *simMintDB) AddPendingProofs(p cashu.Proofs, q string) error {
	if d.pre(fmt.Sprintf("db.AddPendingProofs n=%d q=%s", len(p), short(q))) {
		return ErrInjectedDB
	}
	return d.inner.AddPendingProofs(p, q)
}
func (d *simMintDB) GetPendingProofs(Ys []string) ([]storage.DBProof, error) {
	if d.pre(fmt.Sprintf("db.GetPendingProofs n=%d", len(Ys))) {
		return nil, ErrInjectedDB
	}
	return d.inner.GetPendingProofs(Ys)
}
func (d *simMintDB) GetPendingProofsByQuote(q string) ([]storage.DBProof, error) {
	if d.pre("db.GetPendingProofsByQuote " + short(q)) {
		return nil, ErrInjectedDB
	}
	return d.inner.GetPendingProofsByQuote(q)
}
func (d *simMintDB) RemovePendingProofsByQuote(Ys []string, quoteId string) error {
	// same seam label as RemovePendingProofs: oracles and fingerprints speak of "the release"
	if d.pre(fmt.Sprintf("db.RemovePendingProofs n=%d", len(Ys))) {
		return ErrInjectedDB
	}
	return d.inner.RemovePendingProofsByQuote(Ys, quoteId)
}

func (d *simMintDB) RemovePendingProofs(Ys []string) error {
	if d.pre(fmt.Sprintf("db.RemovePendingProofs n=%d", len(Ys))) {
		return ErrInjectedDB
	}
	return d.inner.RemovePendingProofs(Ys)
}
func (d *simMintDB) SettlePendingProofs(Ys []string) error {
	if d.pre(fmt.Sprintf("db.SettlePendingProofs n=%d", len(Ys))) {
		return ErrInjectedDB
	}
	return d.inner.SettlePendingProofs(Ys)
}
func (d *simMintDB) SaveMintQuote(q storage.MintQuote) error {
	if d.pre("db.SaveMintQuote " + short(q.Id)) {
		return ErrInjectedDB
	}
	return d.inner.SaveMintQuote(q)
}
func (d *simMintDB) GetMintQuote(id string) (storage.MintQuote, error) {
	if d.pre("db.GetMintQuote " + short(id)) {
		return storage.MintQuote{}, ErrInjectedDB
	}
	return d.inner.GetMintQuote(id)
}
func (d *simMintDB) GetMintQuoteByPaymentHash(h string) (storage.MintQuote, error) {
	if d.pre("db.GetMintQuoteByPaymentHash " + short(h)) {
		return storage.MintQuote{}, ErrInjectedDB
	}
	return d.inner.GetMintQuoteByPaymentHash(h)
}
func (d *simMintDB) UpdateMintQuoteState(id string, st nut04.State) error {
	if d.pre("db.UpdateMintQuoteState " + short(id) + " " + st.String()) {
		return ErrInjectedDB
	}
	return d.inner.UpdateMintQuoteState(id, st)
}
func (d *simMintDB) CompareAndSetMintQuoteState(id string, cur, st nut04.State) (bool, error) {
	if d.pre("db.CompareAndSetMintQuoteState " + short(id) + " " + cur.String() + "->" + st.String()) {
		return false, ErrInjectedDB
	}
	return d.inner.CompareAndSetMintQuoteState(id, cur, st)
}
func (d *simMintDB) SaveMeltQuote(q storage.MeltQuote) error {
	if d.pre("db.SaveMeltQuote " + short(q.Id)) {
		return ErrInjectedDB
	}
	return d.inner.SaveMeltQuote(q)
}
func (d *simMintDB) GetMeltQuote(id string) (storage.MeltQuote, error) {
	if d.pre("db.GetMeltQuote " + short(id)) {
		return storage.MeltQuote{}, ErrInjectedDB
	}
	return d.inner.GetMeltQuote(id)
}
func (d *simMintDB) GetMeltQuoteByPaymentRequest(r string) (*storage.MeltQuote, error) {
	if d.pre("db.GetMeltQuoteByPaymentRequest") {
		return nil, ErrInjectedDB
	}
	return d.inner.GetMeltQuoteByPaymentRequest(r)
}
func (d *simMintDB) UpdateMeltQuote(id, pre string, st nut05.State) error {
	if d.pre("db.UpdateMeltQuote " + short(id) + " " + st.String()) {
		return ErrInjectedDB
	}
	return d.inner.UpdateMeltQuote(id, pre, st)
}
func (d *simMintDB) SaveBlindSignatures(B_s []string, sigs cashu.BlindedSignatures) error {
	if d.pre(fmt.Sprintf("db.SaveBlindSignatures n=%d", len(B_s))) {
		return ErrInjectedDB
	}
	return d.inner.SaveBlindSignatures(B_s, sigs)
}
func (d *simMintDB) GetBlindSignature(B_ string) (cashu.BlindedSignature, error) {
	if d.pre("db.GetBlindSignature") {
		return cashu.BlindedSignature{}, ErrInjectedDB
	}
	return d.inner.GetBlindSignature(B_)
}
func (d *simMintDB) GetBlindSignatures(B_s []string) (cashu.BlindedSignatures, error) {
	if d.pre(fmt.Sprintf("db.GetBlindSignatures n=%d", len(B_s))) {
		return nil, ErrInjectedDB
	}
	return d.inner.GetBlindSignatures(B_s)
}
func (d *simMintDB) GetIssuedEcash() (map[string]uint64, error) {
	if d.pre("db.GetIssuedEcash") {
		return nil, ErrInjectedDB
	}
	return d.inner.GetIssuedEcash()
}
func (d *simMintDB) GetRedeemedEcash() (map[string]uint64, error) {
	if d.pre("db.GetRedeemedEcash") {
		return nil, ErrInjectedDB
	}
	return d.inner.GetRedeemedEcash()
}
func (d *simMintDB) Close() error { return d.inner.Close() }
