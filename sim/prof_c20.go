package sim

import (
	"bytes"
	"fmt"
	"strings"
	"time"
)

// C20 — the HTTP/JSON surface is a faithful, spec-shaped transport of the mint's decisions.

func init() {
	Register(&Profile{Prop: "C20", Fatal: []string{"C20."}, Run: runC20, Core: coreC20})
}

var c20Causes = []string{"spent", "unbalanced", "dup_inputs", "dup_outputs", "unknown_keyset", "inactive_keyset", "already_signed",
	"bad_proof", "unpaid", "issued", "disabled", "over_max", "unit", "melt_pending", "melt_paid", "nut20", "melt_over_max", "pending_proof"}

// NUT error code table (restated from the NUT error codes document)
var c20Code = map[string]int{"spent": 11001, "unbalanced": 11002, "dup_inputs": 11007, "dup_outputs": 11008, "unknown_keyset": 12001,
	"inactive_keyset": 12002, "already_signed": 10002, "bad_proof": 10003, "unpaid": 20001, "issued": 20002, "disabled": 20003,
	"over_max": 11006, "unit": 11005, "melt_pending": 20005, "melt_paid": 20006, "nut20": 20008, "melt_over_max": 11006, "pending_proof": 11001}

func coreC20(tier string) []RunSpec {
	var out []RunSpec
	for ci := range c20Causes {
		out = append(out, RunSpec{Profile: "core:cause:" + c20Causes[ci], Params: map[string]int{"cause": ci}})
	}
	for k := 0; k < 8; k++ {
		out = append(out, RunSpec{Profile: "core:cache", Params: map[string]int{"cache": 1, "k": k}})
		if k < 4 {
			out = append(out, RunSpec{Profile: "core:cache-across-rotation", Params: map[string]int{"cache": 1, "cacherot": 1, "k": k}})
		}
		out = append(out, RunSpec{Profile: "core:inject", Params: map[string]int{"inject": 1, "k": k}})
	}
	return out
}

// StepCause: provoke one rejection cause and compare the code.
func (m *MW) StepCause(ci int) {
	W := m.W
	mint := "A"
	cause := c20Causes[ci]
	ks := W.ActiveKeyset(mint)
	m.rc.Op("cause:" + cause)
	var r *Resp
	skipped := false
	m.rc.S.BeginEpisode()
	m.rc.S.Run1(m.name("cause"), W.Ext, func() {
		a := m.Atk
		one := m.pickProofs(mint, 1)
		fee := uint64(0)
		if one != nil {
			fee = m.feeFor(mint, one)
		}
		switch cause {
		case "spent":
			sp := m.Spent[mint]
			if len(sp) == 0 {
				skipped = true
				return
			}
			v := *sp[m.T.Choose("cause.si", len(sp))]
			f := m.feeFor(mint, []*HProof{&v})
			if v.Amount <= f {
				skipped = true
				return
			}
			_, r = a.Swap(mint, []*HProof{&v}, W.NewOutputs(Split(v.Amount-f), ks.ID))
		case "pending_proof":
			var pm *PendingMelt
			for _, x := range m.Pending {
				if pay := W.LN.Payments[x.Key]; x.Known && pay != nil && pay.Truth == ptInflight {
					pm = x
				}
			}
			if pm == nil {
				skipped = true
				return
			}
			v := *pm.Ins[0]
			f := m.feeFor(mint, []*HProof{&v})
			if v.Amount <= f {
				skipped = true
				return
			}
			_, r = a.Swap(mint, []*HProof{&v}, W.NewOutputs(Split(v.Amount-f), ks.ID))
		case "unbalanced":
			if one == nil {
				skipped = true
				return
			}
			_, r = a.Swap(mint, one, W.NewOutputs(Split(SumH(one)+1), ks.ID))
		case "dup_inputs":
			if one == nil || 2*SumH(one) <= 2*fee {
				skipped = true
				return
			}
			_, r = a.Swap(mint, []*HProof{one[0], one[0]}, W.NewOutputs(Split(SumH(one)), ks.ID))
		case "dup_outputs":
			if one == nil || SumH(one) <= fee+1 {
				skipped = true
				return
			}
			o := W.NewOutput(1, ks.ID, "")
			_, r = a.Swap(mint, one, []*HOutput{o, o})
		case "unknown_keyset":
			if one == nil || SumH(one) <= fee {
				skipped = true
				return
			}
			_, r = a.Swap(mint, one, W.NewOutputs(Split(SumH(one)-fee), "00ffffffffffffff"))
		case "inactive_keyset":
			inactive := ""
			for id, k := range W.Book.Mint(mint).Keysets {
				if !k.Active && (inactive == "" || id < inactive) {
					inactive = id
				}
			}
			if inactive == "" || one == nil || SumH(one) <= fee {
				skipped = true
				return
			}
			_, r = a.Swap(mint, one, W.NewOutputs(Split(SumH(one)-fee), inactive))
		case "already_signed":
			mb := W.Book.Mint(mint)
			if one == nil || len(mb.SigSeq) == 0 || SumH(one) <= fee {
				skipped = true
				return
			}
			var old *HOutput
			for _, b := range mb.SigSeq {
				if o := W.Outputs[b]; o != nil && o.ID == ks.ID && o.Amount <= SumH(one)-fee {
					old = o
					break
				}
			}
			if old == nil {
				skipped = true
				return
			}
			_, r = a.Swap(mint, one, []*HOutput{old})
		case "bad_proof":
			if one == nil || SumH(one) <= fee {
				skipped = true
				return
			}
			v := *one[0]
			v.C = pointHex(mulG(randScalar()))
			_, r = a.Swap(mint, []*HProof{&v}, W.NewOutputs(Split(v.Amount-fee), ks.ID))
		case "unpaid":
			q, _ := a.ReqMintQuote(mint, 8, false)
			if q == nil {
				skipped = true
				return
			}
			_, r = a.Mint(mint, q, W.NewOutputs(Split(8), ks.ID), "")
		case "issued":
			q, _ := a.ReqMintQuote(mint, 8, false)
			if q == nil {
				skipped = true
				return
			}
			W.LN.PayExternal(q.Hash)
			if _, r0 := a.Mint(mint, q, W.NewOutputs(Split(8), ks.ID), ""); !r0.OK() {
				skipped = true
				return
			}
			_, r = a.Mint(mint, q, W.NewOutputs(Split(8), ks.ID), "")
		case "disabled":
			lim := W.Mints[mint].Cfg.Limits
			if lim.MaxBalance == 0 {
				skipped = true
				return
			}
			if lim.MintingSettings.MaxAmount > 0 && lim.MaxBalance+1 > lim.MintingSettings.MaxAmount {
				skipped = true
				return
			}
			// one more than the whole maximum is over it whatever the current balance is (a melt may
			// have brought the balance back to zero)
			_, r = a.ReqMintQuote(mint, lim.MaxBalance+1, false)
		case "over_max":
			lim := W.Mints[mint].Cfg.Limits
			if lim.MintingSettings.MaxAmount == 0 {
				skipped = true
				return
			}
			_, r = a.ReqMintQuote(mint, lim.MintingSettings.MaxAmount+1, false)
		case "melt_over_max":
			lim := W.Mints[mint].Cfg.Limits
			if lim.MeltingSettings.MaxAmount == 0 {
				skipped = true
				return
			}
			inv := W.LN.NewExternalInvoice((lim.MeltingSettings.MaxAmount + 1) * 1000)
			_, r = a.ReqMeltQuote(mint, inv.Bolt11, 0)
		case "unit":
			// another unit, also spelled with characters that need escaping when the mint echoes them in
			// its error detail (control characters, DEL, non-ASCII, an astral-plane tag character)
			units := []string{"usd", "sat\u0007", "s\u007ft", "s\u00e4t", "sat\U000e0001", "\x1bsat", "sa\"t", "sat\v"}
			u := units[m.T.Choose("cause.unit", len(units))]
			if m.T.Chance("cause.unit.melt", 1, 3) {
				inv := m.W.LN.NewExternalInvoice(7000)
				r = a.Post(mint, "/v1/melt/quote/bolt11", map[string]any{"request": inv.Bolt11, "unit": u})
			} else {
				r = a.Post(mint, "/v1/mint/quote/bolt11", map[string]any{"amount": 5, "unit": u})
			}
		case "melt_pending", "melt_paid":
			inv := W.LN.NewExternalInvoice(3000)
			sc := &LNScript{Pay: "pending"}
			if cause == "melt_paid" {
				sc.Pay = "succeeded"
			}
			W.LN.Scripts[inv.Hash] = sc
			q, _ := a.ReqMeltQuote(mint, inv.Bolt11, 0)
			if q == nil {
				skipped = true
				return
			}
			ins := m.TakeFor(mint, q.Amount+q.Reserve)
			if ins == nil {
				skipped = true
				return
			}
			r0 := m.User.Melt(mint, q.ID, ins)
			m.afterMelt(mint, q, ins, r0)
			if !r0.OK() {
				skipped = true
				return
			}
			other := m.pickProofs(mint, 1)
			if other == nil {
				skipped = true
				return
			}
			r = a.Melt(mint, q.ID, other)
		case "nut20":
			q, _ := a.ReqMintQuote(mint, 8, true)
			if q == nil {
				skipped = true
				return
			}
			W.LN.PayExternal(q.Hash)
			outs := W.NewOutputs(Split(8), ks.ID)
			_, r = a.Mint(mint, q, outs, SignNut20(q.Priv, "otherquote", outs))
			if !r.OK() {
				a.Mint(mint, q, outs, "")
			}
		}
	})
	if skipped || r == nil {
		return
	}
	m.rc.S.Probe("c20_cause_" + cause)
	m.rc.Nontrivial = true
	want := c20Code[cause]
	if r.Err != nil {
		return
	}
	if r.Status != 400 {
		W.Book.Violate("C20.status", cause, "request refused for cause %s answered with status %d: %s", cause, r.Status, cut(string(r.Raw), 120))
		return
	}
	if r.Code != want {
		W.Book.Violate("C20.error_code", cause, "cause %q answered with code %d (%q), NUT error table says %d", cause, r.Code, r.Detail, want)
	}
}

// StepCacheReplay: NUT-19. A byte-identical replay of a successful swap/mint returns the identical
// bytes without executing (zero seam calls); near-replays are executed on their merits.
func (m *MW) StepCacheReplay() {
	W := m.W
	mint := "A"
	ks := W.ActiveKeyset(mint)
	useMint := m.T.Chance("cache.mint", 1, 3)
	m.rc.Op(fmt.Sprintf("cache-replay mint=%v", useMint))
	var path string
	var body []byte
	var first *Resp
	var ins []*HProof
	m.rc.S.BeginEpisode()
	m.rc.S.Run1(m.name("cache0"), W.Ext, func() {
		a := m.User
		if useMint {
			q, _ := a.ReqMintQuote(mint, 8, false)
			if q == nil {
				return
			}
			W.LN.PayExternal(q.Hash)
			outs := W.NewOutputs(Split(8), ks.ID)
			path = "/v1/mint/bolt11"
			body = mustJSON(map[string]any{"quote": q.ID, "outputs": outsJ(outs)})
			first = a.do("POST", mint, path, body, "application/json")
			if first.OK() {
				sigs, _ := first.Body["signatures"].([]any)
				a.Purse[mint] = append(a.Purse[mint], W.Unblind(mint, outs, sigs)...)
			}
		} else {
			ins = m.pickProofs(mint, 1+m.T.Choose("cache.k", 2))
			fee := m.feeFor(mint, ins)
			if ins == nil || SumH(ins) <= fee {
				return
			}
			outs := W.NewOutputs(Split(SumH(ins)-fee), ks.ID)
			path = "/v1/swap"
			body = mustJSON(map[string]any{"inputs": proofsJ(ins), "outputs": outsJ(outs)})
			first = a.do("POST", mint, path, body, "application/json")
			if first.OK() {
				sigs, _ := first.Body["signatures"].([]any)
				m.markSpent(mint, ins)
				a.Purse[mint] = append(a.Purse[mint], W.Unblind(mint, outs, sigs)...)
			}
		}
	})
	if first == nil || !first.OK() {
		return
	}
	// optionally other traffic in between
	if m.T.Chance("cache.between", 1, 2) {
		m.StepSwap()
	}
	if m.T.Chance("cache.rotate", 1, 4) || m.rc.P("cacherot", 0) == 1 {
		// the operator rotates the keyset on the running mint and clients fetch keys and keysets:
		// none of that makes an executed request executable again
		m.StepRotateRuntime()
		m.rc.S.BeginEpisode()
		m.rc.S.Run1(m.name("cachekeys"), W.Ext, func() {
			m.Atk.Get(mint, "/v1/keys")
			m.Atk.Get(mint, "/v1/keysets")
			m.Atk.Get(mint, "/v1/keys/"+ks.ID)
			m.Atk.Get(mint, "/v1/info")
		})
		m.rc.S.Probe("c20_rotation_and_key_requests_before_replay")
	}
	if m.T.Chance("cache.wait", 1, 3) {
		m.rc.S.Sleep(time.Duration(1+m.T.Choose("cache.secs", 280)) * time.Second) // inside the 300 s TTL
	}
	// 1. byte-identical replays: one to three of them (a client retries until it gets through)
	nrep := 1 + m.T.Choose("cache.nrep", 3)
	for k := 1; k <= nrep; k++ {
		m.cacheReplayOnce(mint, path, body, first, k)
	}
	// 2. near-replays: must be executed on their merits (and, the operation being done already, refused)
	type near struct {
		desc, method, path string
		body               []byte
	}
	alt := "/v1/mint/bolt11"
	if useMint {
		alt = "/v1/swap"
	}
	nears := []near{
		{"trailing space", "POST", path, append(append([]byte{}, body...), ' ')},
		{"leading newline", "POST", path, append([]byte{'\n'}, body...)},
		{"query string", "POST", path + "?x=1", body},
		{"other path", "POST", alt, body},
		{"GET method", "GET", path, body},
		{"trailing slash", "POST", path + "/", body},
	}
	nr := nears[m.T.Choose("cache.near", len(nears))]
	var nrr *Resp
	m.rc.S.BeginEpisode()
	m.rc.S.Run1(m.name("cache2"), W.Ext, func() {
		nrr = m.Atk.do(nr.method, mint, nr.path, nr.body, "application/json")
	})
	m.rc.S.Probe("c20_cache_near_replay")
	if nrr.Err == nil && nrr.Status == 200 && bytes.Equal(nrr.Raw, first.Raw) {
		W.Book.Violate("C20.cache_leak", nr.desc, "near-replay (%s) of a cached %s request was answered with the cached response", nr.desc, path)
	}
	m.rc.Nontrivial = true
}

// StepCacheSplitReplay: a request whose bytes are distributed differently over URL and body than
// those of a cached request (same method, same concatenation) is another request: it must be
// executed on its merits, not answered from the cache. The first request carries a second JSON
// document behind its body (the decoder stops after the first one); the near-replay moves the first
// document into the query string and sends the second one as its body.
func (m *MW) StepCacheSplitReplay() {
	W := m.W
	mint := "A"
	ks := W.ActiveKeyset(mint)
	m.rc.Op("cache-split-replay")
	ins := m.pickProofs(mint, 1)
	fee := m.feeFor(mint, ins)
	if ins == nil || SumH(ins) <= fee {
		return
	}
	outs := W.NewOutputs(Split(SumH(ins)-fee), ks.ID)
	j1 := mustJSON(map[string]any{"inputs": proofsJ(ins), "outputs": outsJ(outs)})
	j2 := []byte(`{"inputs":[],"outputs":[]}`)
	var first, second *Resp
	m.rc.S.BeginEpisode()
	m.rc.S.Run1(m.name("split0"), W.Ext, func() {
		first = m.User.do("POST", mint, "/v1/swap?r=1", append(append([]byte{}, j1...), j2...), "application/json")
		if first.OK() {
			sigs, _ := first.Body["signatures"].([]any)
			m.markSpent(mint, ins)
			m.User.Purse[mint] = append(m.User.Purse[mint], W.Unblind(mint, outs, sigs)...)
		}
	})
	if first == nil || !first.OK() {
		m.rc.S.Probe("c20_split_first_refused")
		return
	}
	m.rc.S.BeginEpisode()
	m.rc.S.Run1(m.name("split1"), W.Ext, func() {
		second = m.Atk.do("POST", mint, "/v1/swap?r=1"+string(j1), j2, "application/json")
	})
	m.rc.S.Probe("c20_cache_split_replay")
	if second != nil && second.Err == nil && second.Status == 200 && bytes.Equal(second.Raw, first.Raw) {
		W.Book.Violate("C20.cache_leak", "bytes moved between URL and body", "a request with another URL and another body (the cached request's bytes distributed differently) was answered with the cached response of /v1/swap")
	}
	m.rc.Nontrivial = true
}

func mustJSON(v any) []byte {
	r := &Resp{}
	_ = r
	b, err := jsonMarshal(v)
	if err != nil {
		harnessf("marshal: %v", err)
	}
	return b
}

// StepInjectedFailure: a storage or Lightning failure inside a request is reported generically.
func (m *MW) StepInjectedFailure() {
	W := m.W
	mint := "A"
	ks := W.ActiveKeyset(mint)
	// 0..6: storage error inside swap / mint quote / mint / checkstate / melt / melt quote / restore;
	// 7..9: Lightning error inside mint quote / mint / melt
	kind := m.T.Choose("inj.kind", 10)
	pos := 1 + m.T.Choose("inj.pos", 12)
	m.rc.Op(fmt.Sprintf("injected-failure kind=%d pos=%d", kind, pos))
	var r *Resp
	var ins []*HProof
	obsFrom := len(W.Net.Obs)
	plan := &FaultPlan{Node: mint, Kind: "db_error", SeamKind: "db", Pos: pos}
	lnErr := kind >= 7
	op := kind
	if lnErr {
		plan = nil
		op = []int{1, 2, 4}[kind-7]
	}
	// preparation of the request that will meet the failure happens in a clean episode
	var mq *MintQuote
	var lq *MeltQuote
	m.rc.Quietly(func() {
		a := m.Atk
		switch op {
		case 0:
			ins = m.pickProofs(mint, 1)
			if fee := m.feeFor(mint, ins); ins == nil || SumH(ins) <= fee {
				ins = nil
			}
		case 2:
			mq, _ = a.ReqMintQuote(mint, 9, false)
			if mq != nil {
				W.LN.PayExternal(mq.Hash)
			}
		case 4:
			inv := W.LN.NewExternalInvoice(11000)
			W.LN.Scripts[inv.Hash] = &LNScript{Pay: "succeeded"}
			if lnErr {
				W.LN.Scripts[inv.Hash] = &LNScript{Pay: "error", Status: []string{"error"}}
			}
			lq, _ = a.ReqMeltQuote(mint, inv.Bolt11, 0)
			if lq != nil {
				ins = m.TakeFor(mint, lq.Amount+lq.Reserve)
			}
		}
	})
	if lnErr {
		W.LN.Cfg.InvoiceErrPct = 100
		W.LN.Cfg.AmbiguousPct = 100
	}
	if plan != nil {
		m.rc.S.BeginEpisode(plan)
	} else {
		m.rc.S.BeginEpisode()
	}
	m.rc.S.Run1(m.name("inj"), W.Ext, func() {
		a := m.Atk
		switch op {
		case 0:
			if ins != nil {
				_, r = a.Swap(mint, ins, W.NewOutputs(Split(SumH(ins)-m.feeFor(mint, ins)), ks.ID))
			}
		case 1:
			_, r = a.ReqMintQuote(mint, 9, false)
		case 2:
			if mq != nil {
				_, r = a.Mint(mint, mq, W.NewOutputs(Split(9), ks.ID), "")
			}
		case 3:
			r = a.CheckState(mint, []string{hY("whatever")})
		case 4:
			if lq != nil && ins != nil {
				r = a.Melt(mint, lq.ID, ins)
				m.rc.S.Probe("c20_injected_into_melt")
			}
		case 5:
			inv := W.LN.NewExternalInvoice(12000)
			_, r = a.ReqMeltQuote(mint, inv.Bolt11, 0)
		case 6:
			r = a.Restore(mint, W.NewOutputs([]uint64{1, 2}, ks.ID))
		}
	})
	W.LN.Cfg.InvoiceErrPct = 0
	W.LN.Cfg.AmbiguousPct = 0
	if ins != nil {
		// outcome unknown to the harness: take the proof out of circulation (the audit decides)
		m.User.remove(mint, ins)
	}
	for _, o := range W.Net.Obs[obsFrom:] {
		if bytes.Contains(o.Resp, []byte("SIMFAULT")) {
			W.Book.Violate("C20.internal_detail", o.Path, "response to a request that met an injected storage/Lightning failure leaks the internal error: %s", cut(string(o.Resp), 160))
		}
		if o.Status != 0 && o.Status != 200 && o.Status != 400 {
			W.Book.Violate("C20.status", "injected", "status %d after injected failure", o.Status)
		}
	}
	if r != nil && r.Err == nil && r.Status == 400 {
		m.rc.S.Probe("c20_injected_failure_reported")
		m.rc.Nontrivial = true
	}
}

// cacheReplayOnce sends the k-th byte-identical replay of a successful request and checks that the
// response is the original one and that the handler touched neither storage nor Lightning.
func (m *MW) cacheReplayOnce(mint, path string, body []byte, first *Resp, k int) {
	W := m.W
	task := fmt.Sprintf("%s.%d", m.name("cache1"), k)
	seamsBefore := len(W.SeamLog)
	lnBefore := len(W.LN.Calls)
	var rep *Resp
	m.rc.S.BeginEpisode()
	m.rc.S.Run1(task, W.Ext, func() {
		rep = m.Atk.do("POST", mint, path, body, "application/json")
	})
	m.rc.S.Probe("c20_cache_replay")
	if k > 1 {
		m.rc.S.Probe("c20_cache_replay_repeated")
	}
	if rep.Err != nil {
		return
	}
	fp := "identical"
	if k > 1 {
		fp = "identical-repeated"
	}
	if rep.Status != 200 || !bytes.Equal(rep.Raw, first.Raw) {
		W.Book.Violate("C20.cache_replay", fp, "byte-identical replay #%d of a successful %s within the TTL answered %d %s, original was %s", k, path, rep.Status, cut(string(rep.Raw), 80), cut(string(first.Raw), 80))
	}
	// calls made by the replay's own handler task (background watchers do not count)
	nd, nl := 0, 0
	pre := task + "/h"
	for _, c := range W.SeamLog[seamsBefore:] {
		if strings.HasPrefix(c.Task, pre) {
			nd++
		}
	}
	for _, c := range W.LN.Calls[lnBefore:] {
		if strings.HasPrefix(c.Task, pre) {
			nl++
		}
	}
	if nd+nl > 0 {
		W.Book.Violate("C20.cache_executed", fp, "byte-identical replay #%d of %s caused %d storage and %d Lightning calls", k, path, nd, nl)
	}
}

func runC20(rc *RunCtx) {
	T := rc.T
	fee := []uint{0, 100}[T.Choose("cfg.fee", 2)]
	ln := LNConfig{FeePolicy: T.Choose("cfg.feepol", 3), PayOutcomeMix: T.Choose("cfg.mix", 2)}
	opts := MintOpts{Fee: fee}
	opts.Limits.MaxBalance = 4000
	opts.Limits.MintingSettings.MaxAmount = 5000
	opts.Limits.MeltingSettings.MaxAmount = 4000
	rc.NewMintWorld(ln, opts)
	rc.W.ShapeCheck = true
	m := NewMW(rc, "A")
	m.Locks = true
	m.Fees = map[string][]uint64{"A": {uint64(fee), 100}}
	rc.Quietly(func() { m.User.Fund("A", 255); m.User.Fund("A", 100) })
	cause, hasCause := rc.Spec.Params["cause"]
	cacheOnly := rc.P("cache", 0) == 1
	injOnly := rc.P("inject", 0) == 1
	if hasCause && c20Causes[cause] == "inactive_keyset" {
		m.StepRestart(true)
		m.forceRotate = true
		m.StepRestart(true)
		m.forceRotate = false
	}
	if hasCause {
		// some history first so that spent / pending proofs exist
		m.StepSwap()
		m.StepSwap()
	}
	// weights:       fund swap melt resolve replay dup race checkstate restore restart clock adv internal rotate
	weights := []int{1, 3, 3, 2, 1, 1, 1, 2, 2, 1, 0, 1, 1, 0}
	rc.StepLoop(3, 14, func(i int) {
		m.step = i
		switch {
		case hasCause:
			if i == 0 && c20Causes[cause] == "pending_proof" {
				// make a melt that stays pending
				inv := rc.W.LN.NewExternalInvoice(5000)
				rc.W.LN.Scripts[inv.Hash] = &LNScript{Pay: "pending"}
				rc.S.Run1("mkpending", rc.W.Ext, func() {
					if q, _ := m.User.ReqMeltQuote("A", inv.Bolt11, 0); q != nil {
						m.doMelt("A", q)
					}
				})
			}
			m.StepCause(cause)
		case cacheOnly:
			if rc.P("split", 0) == 1 || (i%3 == 2 && rc.P("cacherot", 0) == 0) {
				m.StepCacheSplitReplay()
			} else {
				m.StepCacheReplay()
			}
		case injOnly:
			m.StepInjectedFailure()
		default:
			switch T.Pick("c20.kind", 5, 3, 2, 2, 2) {
			case 4:
				// inputs with garbled NUT-10 secrets: whatever the mint makes of them, the answer
				// has the NUT shape (the shape validator looks at every exchange)
				c06LockSecretMutants(rc, m, func() string { return "" }, i)
			case 0:
				m.Step(T.Pick("step.kind", weights...), true)
			case 1:
				m.StepCause(T.Choose("cause", len(c20Causes)))
			case 2:
				if T.Chance("cache.split", 1, 5) {
					m.StepCacheSplitReplay()
				} else {
					m.StepCacheReplay()
				}
			case 3:
				m.StepInjectedFailure()
			}
		}
	})
	// info, keys, keysets endpoints too
	rc.Quietly(func() {
		m.User.Get("A", "/v1/info")
		m.User.Get("A", "/v1/keys")
		m.User.Get("A", "/v1/keysets")
		if ks := rc.W.ActiveKeyset("A"); ks != nil {
			m.User.Get("A", "/v1/keys/"+ks.ID)
		}
		m.User.Get("A", "/v1/keys/00ffffffffffffff")
	})
	m.Finale()
	_ = strings.TrimSpace
}
