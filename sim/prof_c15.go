package sim

import (
	"fmt"
	"time"
)

// C15 — state check and restore tell the truth about everything the mint ever did.

func init() {
	Register(&Profile{Prop: "C15", Fatal: []string{"C15.", "C01.spent_not_reported"}, Run: runC15, Core: coreC15})
}

func coreC15(tier string) []RunSpec {
	var out []RunSpec
	n := 10
	if tier == "thorough" {
		n = 40
	}
	for k := 0; k < n; k++ {
		out = append(out, RunSpec{Profile: "core:concurrent", Params: map[string]int{"conc": 1, "k": k}})
		out = append(out, RunSpec{Profile: "core:history", Params: map[string]int{"conc": 0, "k": k}})
	}
	for k := 0; k < 6; k++ {
		out = append(out, RunSpec{Profile: "core:late-resolution", Params: map[string]int{"conc": 0, "late": 1, "k": k}})
	}
	for k := 0; k < 12; k++ {
		out = append(out, RunSpec{Profile: "core:melt-poll-race", Params: map[string]int{"conc": 0, "mpr": 1, "k": k}})
	}
	// pay calls that end in an error or a timeout while the payment is in flight, then a state check
	for k := 0; k < 4; k++ {
		out = append(out, RunSpec{Profile: "core:state-check-while-payment-in-flight", Params: map[string]int{"conc": 0, "infl": 1, "k": k}})
	}
	// one request with very many outputs, everything restored afterwards (before / after a restart)
	for k := 0; k < 4; k++ {
		out = append(out, RunSpec{Profile: "core:large-request-restore", Params: map[string]int{"conc": 0, "large": 1, "k": k}})
	}
	// one state check over the proofs of two melts in flight, after one or both payments ended
	for k := 0; k < 10; k++ {
		out = append(out, RunSpec{Profile: "core:checkstate-two-pending", Params: map[string]int{"conc": 0, "c2p": 1, "k": k}})
	}
	return out
}

func runC15(rc *RunCtx) {
	T := rc.T
	ln := LNConfig{FeePolicy: T.Choose("cfg.feepol", 4), PayOutcomeMix: 1}
	if T.Chance("cfg.amb", 1, 4) {
		ln.AmbiguousPct = 15
	}
	fee := []uint{0, 100}[T.Choose("cfg.fee", 2)]
	rc.S.Policy = T.Choose("cfg.policy", 3)
	rc.NewMintWorld(ln, MintOpts{Fee: fee})
	rc.W.RespellPct = 8 // some outputs travel as upper-case or uncompressed points: signed, stored and restored under the spelling sent
	m := NewMW(rc, "A")
	m.Fees = map[string][]uint64{"A": {uint64(fee), 100}}
	m.Locks = true
	rc.Quietly(func() { m.User.Fund("A", 255); m.User.Fund("A", 100) })
	if rc.P("late", 0) == 1 {
		// a payment that outlives its quote's expiry: pending, two hours pass, it resolves, and the
		// state check must follow (k even: success, odd: failure is drawn by StepResolve)
		for i := 0; i < 2+rc.P("k", 0)%2; i++ {
			m.step = -10 + i
			rc.W.LN.ForceNextPay = "pending"
			m.StepMelt()
		}
		rc.W.LN.ForceNextPay = ""
		rc.Op("clock+2h")
		rc.S.Sleep(2 * time.Hour)
		for i := 0; i < 3; i++ {
			m.step = -5 + i
			m.StepResolve()
			m.StepCheckstate()
		}
		rc.S.Probe("c15_late_resolution")
	}
	if rc.P("infl", 0) == 1 {
		// melts whose pay call ends in an error or a timeout while the payment is really in flight: a
		// state check of their inputs says PENDING (the Book judges it at the response)
		for i := 0; i < 3; i++ {
			m.step = -60 + i
			rc.W.LN.ForceNextPay = []string{"error-inflight", "timeout", "error-inflight", "pending"}[(i+rc.P("k", 0))%4]
			m.StepMelt()
			rc.W.LN.ForceNextPay = ""
			mb := rc.W.Book.Mint("A")
			if n := len(mb.LQOrder); n > 0 {
				if q := mb.LQ[mb.LQOrder[n-1]]; len(q.Attempts) > 0 {
					var Ys []string
					for _, pr := range q.Attempts[len(q.Attempts)-1].Inputs {
						Ys = append(Ys, hY(pr.Secret))
					}
					rc.S.BeginEpisode()
					rc.S.Run1(fmt.Sprintf("infl.cs%d", i), rc.W.Ext, func() { m.User.CheckState("A", Ys) })
					rc.S.Probe("c15_checkstate_after_erroring_pay_call")
				}
			}
		}
	}
	if rc.P("large", 0) == 1 {
		m.step = -40
		m.StepLargeRequest([]int{170, 260, 340, 520}[rc.P("k", 0)%4], rc.P("k", 0)%2 == 1)
	}
	if rc.P("c2p", 0) == 1 {
		for i := 0; i < 3; i++ {
			m.step = -30 + 4*i
			m.StepCheckTwoPending()
		}
	}
	if rc.P("mpr", 0) == 1 {
		for i := 0; i < 4; i++ {
			m.step = -20 + i
			m.StepMeltPollRace()
		}
	}
	conc := rc.P("conc", -1)
	// weights:       fund swap melt resolve replay dup race checkstate restore restart clock adv internal rotate
	// (clock jumps: payments may outlive their quote's expiry; the last two: stale-release and melt-with-polls races)
	weights := []int{1, 3, 3, 2, 1, 0, 0, 5, 4, 1, 2, 0, 1, 0, 1, 1, 3}
	rc.StepLoop(4, 16, func(i int) {
		m.step = i
		c := T.Chance("conc", 1, 3)
		if conc == 1 {
			c = i%2 == 1
		} else if conc == 0 {
			c = false
		}
		if c {
			m.StepConcurrentQueries()
			return
		}
		if T.Chance("c2p", 1, 10) {
			m.StepCheckTwoPending()
			return
		}
		k := T.Pick("step.kind", weights...)
		m.Step(k, true)
		// after any step: ask about everything the harness knows, in a shuffled order
		if T.Chance("fullcheck", 1, 3) {
			m.StepCheckstate()
			m.StepRestore()
		}
	})
	// end: complete query over all known secrets and outputs, after resolving in-flight payments
	m.BeforeAudit = func() {
		var Ys []string
		for _, p := range m.Spent["A"] {
			Ys = append(Ys, p.Y())
		}
		for _, p := range m.User.Purse["A"] {
			Ys = append(Ys, p.Y())
		}
		if len(Ys) > 0 {
			r := m.User.CheckState("A", Ys)
			if r.OK() {
				m.verifyStates("A", Ys, r)
			}
		}
		var outs []*HOutput
		for _, b := range rc.W.OutOrder {
			if o := rc.W.Outputs[b]; o != nil {
				outs = append(outs, o)
			}
		}
		for i := 0; i < len(outs); i += 40 {
			j := i + 40
			if j > len(outs) {
				j = len(outs)
			}
			m.User.Restore("A", outs[i:j])
		}
	}
	m.Finale()
	rc.Nontrivial = rc.S.Stats["c15_state_compared"] > 0 || rc.S.Stats["c15_restore_checked"] > 0
}
