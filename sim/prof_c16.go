package sim

import (
	"fmt"
	"math/big"
	"sort"

	gmint "github.com/elnosh/gonuts/mint"
)

// C16 — reported balances are exact and configured limits are enforced.

func init() {
	Register(&Profile{Prop: "C16", Fatal: []string{"C16."}, Run: runC16, Core: coreC16})
}

func coreC16(tier string) []RunSpec {
	var out []RunSpec
	// limit configurations: each limit unset / small / boundary
	for mb := 0; mb < 3; mb++ {
		for mm := 0; mm < 3; mm++ {
			for ml := 0; ml < 3; ml++ {
				out = append(out, RunSpec{Profile: "core:limits", Params: map[string]int{"maxbal": mb, "mintmax": mm, "meltmax": ml}})
			}
		}
	}
	// more than 2^53 sat issued (and redeemed): every limit configuration without a per-quote mint maximum
	for w := 1; w <= 2; w++ {
		for mb := 0; mb < 3; mb++ {
			for ml := 0; ml < 3; ml += 2 {
				out = append(out, RunSpec{Profile: "core:whale", Params: map[string]int{"maxbal": mb, "mintmax": 0, "meltmax": ml, "whale": w}})
			}
		}
	}
	// a storage call fails inside the quote requests that probe the limits
	for mb := 1; mb < 3; mb++ {
		for mm := 0; mm < 2; mm++ {
			for k := 0; k < 3; k++ {
				out = append(out, RunSpec{Profile: "core:limits-under-storage-error", Params: map[string]int{"maxbal": mb, "mintmax": mm, "meltmax": 1, "limfault": 1, "faults": 0, "whale": 0, "k": k}})
			}
		}
	}
	// one storage error at the k-th storage call of a swap / melt / mint / internal settlement
	for _, op := range []int{1, 2, 0, 12} {
		for k := 1; k <= 10; k++ {
			out = append(out, RunSpec{Profile: "core:db-error", Params: map[string]int{"faults": 2, "fop": op, "fpos": k, "maxbal": 0, "mintmax": 0, "meltmax": 0}})
		}
	}
	return out
}

// bookTotals: issued and redeemed per keyset from what crossed the wire.
func (m *MW) bookTotals(mint string) (issued, redeemed map[string]uint64) {
	mb := m.W.Book.Mint(mint)
	issued, redeemed = map[string]uint64{}, map[string]uint64{}
	for _, sg := range mb.Sigs {
		issued[sg.ID] += sg.Amount
	}
	for _, r := range mb.Secrets {
		if len(r.Cons) > 0 {
			redeemed[r.ID] += r.Amount
		}
	}
	return
}

func mapStr(m map[string]uint64) string {
	ks := make([]string, 0, len(m))
	for k := range m {
		ks = append(ks, k)
	}
	sort.Strings(ks)
	s := ""
	for _, k := range ks {
		if m[k] != 0 {
			s += fmt.Sprintf("%s=%d ", k, m[k])
		}
	}
	return s
}

// CheckBalances compares the mint's reported totals with the Book. Only meaningful when no
// melt is unresolved (pending proofs are neither issued nor redeemed).
func (m *MW) CheckBalances(mint, when string) {
	W := m.W
	if len(m.Pending) > 0 || len(W.LN.InflightKeys()) > 0 {
		// a melt whose payment is in flight LOCKS its inputs, it has not consumed them: the totals are
		// comparable as long as every unresolved melt the harness knows of is really still in flight
		// (a payment that has ended without the mint having noticed is consumed or not depending on
		// who is asked) and no other payment is in flight
		for _, pm := range m.Pending {
			pay := W.LN.Payments[pm.Key]
			if !pm.Known || pm.Mint != mint || pay == nil || pay.Truth != ptInflight {
				return
			}
			for _, p := range pm.Ins {
				if m.Unknown[p.Secret] {
					return
				}
			}
		}
		if len(W.LN.InflightKeys()) != len(m.Pending) || m.Faulted {
			return
		}
		m.rc.S.Probe("c16_balances_compared_with_melt_in_flight")
	}
	node := W.Mints[mint]
	W.Book.FinalizeMelts()
	var issued, redeemed map[string]uint64
	var total uint64
	var e1, e2, e3 error
	m.rc.Quietly(func() {
		issued, e1 = node.M.IssuedEcash()
		redeemed, e2 = node.M.RedeemedEcash()
		total, e3 = node.M.TotalBalance()
	})
	if e1 != nil || e2 != nil || e3 != nil {
		W.Book.Violate("C16.balance_error", when, "balance queries failed: %v %v %v", e1, e2, e3)
		return
	}
	bi, br := m.bookTotals(mint)
	if m.Faulted {
		// After an injected storage error an operation may have failed half way: the mint may have
		// stored signatures it never returned, or consumed inputs of a request it answered with an
		// error (C07's business). What C16 still demands: every signature that WAS handed out and
		// every proof whose consumption WAS acknowledged is counted, the total is the difference
		// of the two reports, and it never goes negative.
		m.checkBalancesFaulted(mint, when, issued, redeemed, total, bi, br)
		return
	}
	if mapStr(issued) != mapStr(bi) {
		W.Book.Violate("C16.issued_wrong", when, "IssuedEcash reports [%s], signatures handed out sum to [%s]", mapStr(issued), mapStr(bi))
	}
	if mapStr(redeemed) != mapStr(br) {
		W.Book.Violate("C16.redeemed_wrong", when, "RedeemedEcash reports [%s], proofs consumed sum to [%s]", mapStr(redeemed), mapStr(br))
	}
	var ti, tr uint64
	for _, v := range bi {
		ti += v
	}
	for _, v := range br {
		tr += v
	}
	if tr > ti {
		W.Book.Violate("C16.negative_balance", when, "redeemed %d exceeds issued %d", tr, ti)
	} else if total != ti-tr {
		W.Book.Violate("C16.total_wrong", when, "TotalBalance reports %d, issued-redeemed is %d", total, ti-tr)
	}
	m.rc.S.Probe("c16_balances_compared")
	// info endpoint: minting disabled exactly when the balance has reached the maximum
	lim := node.Cfg.Limits
	var r *Resp
	m.rc.Quietly(func() { r = m.User.Get(mint, "/v1/info") })
	if r.OK() {
		disabled := false
		if nuts, ok := r.Body["nuts"].(map[string]any); ok {
			if n4, ok := nuts["4"].(map[string]any); ok {
				disabled, _ = n4["disabled"].(bool)
			}
		}
		want := lim.MaxBalance > 0 && ti-tr >= lim.MaxBalance
		if disabled != want {
			W.Book.Violate("C16.info_disabled", when, "info shows minting disabled=%v with balance %d and max balance %d", disabled, ti-tr, lim.MaxBalance)
		}
		m.rc.S.Probe("c16_info_checked")
	}
}

func (m *MW) checkBalancesFaulted(mint, when string, issued, redeemed map[string]uint64, total uint64, bi, br map[string]uint64) {
	W := m.W
	ids := map[string]bool{}
	for k := range bi {
		ids[k] = true
	}
	for k := range br {
		ids[k] = true
	}
	sorted := make([]string, 0, len(ids))
	for k := range ids {
		sorted = append(sorted, k)
	}
	sort.Strings(sorted)
	for _, k := range sorted {
		if issued[k] < bi[k] {
			W.Book.Violate("C16.issued_wrong", when+":faulted", "IssuedEcash reports %d for keyset %s, signatures handed out sum to %d", issued[k], k, bi[k])
		}
		if redeemed[k] < br[k] {
			W.Book.Violate("C16.redeemed_wrong", when+":faulted", "RedeemedEcash reports %d for keyset %s, acknowledged consumptions sum to %d", redeemed[k], k, br[k])
		}
	}
	var ti, tr uint64
	for _, v := range issued {
		ti += v
	}
	for _, v := range redeemed {
		tr += v
	}
	if tr > ti {
		W.Book.Violate("C16.negative_balance", when+":faulted", "reported redeemed %d exceeds reported issued %d (TotalBalance %d)", tr, ti, total)
	} else if total != ti-tr {
		W.Book.Violate("C16.total_wrong", when+":faulted", "TotalBalance reports %d, reported issued-redeemed is %d", total, ti-tr)
	}
	// ... and the reported balance is covered by what the mint really holds: every sat of balance came in
	// over Lightning and has not left again (signatures stored for a request that was answered with an
	// error and then issued once more on the retry would show up here)
	led := W.LN.ledger(mint)
	lhs := new(big.Int).Mul(new(big.Int).SetUint64(total), big.NewInt(1000))
	lhs.Add(lhs, new(big.Int).SetUint64(led.OutflowMsat))
	if tr <= ti && lhs.Cmp(new(big.Int).SetUint64(led.InflowMsat)) > 0 {
		W.Book.Violate("C16.balance_uncovered", when+":faulted", "TotalBalance reports %d sat but the mint received %d msat and paid out %d msat over Lightning: more is reported as issued than was ever handed out", total, led.InflowMsat, led.OutflowMsat)
	}
	m.rc.S.Probe("c16_balances_compared_faulted")
	m.rc.Nontrivial = true
}

// StepQuoteLimits: quote requests around every boundary, compared with an overflow-free evaluation.
func (m *MW) StepQuoteLimits() {
	mint := m.pickMint()
	W := m.W
	node := W.Mints[mint]
	lim := node.Cfg.Limits
	W.Book.FinalizeMelts()
	bi, br := m.bookTotals(mint)
	var ti, tr uint64
	for _, v := range bi {
		ti += v
	}
	for _, v := range br {
		tr += v
	}
	bal := ti - tr
	unresolved := len(m.Pending) > 0 || len(W.LN.InflightKeys()) > 0
	// candidate amounts
	cands := []uint64{1, 2, 64, 1 << 62, 1<<63 - 1, 1 << 63, ^uint64(0), ^uint64(0) - 1}
	if lim.MintingSettings.MaxAmount > 0 {
		x := lim.MintingSettings.MaxAmount
		cands = append(cands, x-1, x, x+1)
	}
	if lim.MaxBalance > 0 && lim.MaxBalance >= bal {
		room := lim.MaxBalance - bal
		cands = append(cands, room, room+1)
		if room > 0 {
			cands = append(cands, room-1)
		}
		cands = append(cands, ^uint64(0)-bal, ^uint64(0)-bal+1) // balance+amount wraps around
	}
	if lim.MeltingSettings.MaxAmount > 0 {
		x := lim.MeltingSettings.MaxAmount
		cands = append(cands, x-1, x, x+1)
	}
	amt := cands[m.T.Choose("lim.amt", len(cands))]
	melt := m.T.Chance("lim.melt", 1, 3)
	internal := melt && m.T.Chance("lim.internal", 1, 3)
	// sometimes one of the mint's storage calls inside the quote request fails: the request may then
	// be answered with any error, but a request the limits refuse must still not be granted
	var plan *FaultPlan
	if m.rc.P("limfault", 0) == 1 || m.T.Chance("lim.dberr", 1, 5) {
		plan = &FaultPlan{Node: mint, Kind: "db_error", SeamKind: "db", Pos: 1 + m.T.Choose("lim.dberr.pos", 3)}
		m.NextPlans = []*FaultPlan{plan}
	}
	m.rc.Op(fmt.Sprintf("quote-limit melt=%v amt=%d fault=%v", melt, amt, plan != nil))
	m.begin()
	m.rc.S.Run1(m.name("lim"), W.Ext, func() {
		if melt {
			if amt == 0 || amt > 1<<40 {
				amt = 1 + amt%1000
			}
			bolt := ""
			if internal {
				// the invoice of one of this mint's own mint quotes (internal settlement): the melt
				// maximum applies all the same
				if q, _ := m.Atk.ReqMintQuote(mint, amt, false); q != nil {
					bolt = q.Request
					m.rc.S.Probe("c16_melt_quote_limit_internal_invoice")
				}
			}
			if bolt == "" {
				// an invoice with msat precision: the quote is for the amount rounded UP to whole sat, and
				// that amount is what the melt maximum applies to (1 msat above the maximum is above it)
				msat := amt * 1000
				if m.T.Chance("lim.msat", 1, 2) {
					msat -= uint64([]int{999, 500, 1}[m.T.Choose("lim.msat.rem", 3)])
					m.rc.S.Probe("c16_melt_quote_limit_msat_invoice")
				}
				bolt = W.LN.NewExternalInvoice(msat).Bolt11
			}
			_, r := m.Atk.ReqMeltQuote(mint, bolt, 0)
			reject := lim.MeltingSettings.MaxAmount > 0 && amt > lim.MeltingSettings.MaxAmount
			m.rc.S.Probe("c16_melt_quote_limit_checked")
			if plan != nil && plan.fired {
				m.rc.S.Probe("c16_quote_limit_under_storage_error")
				if reject && r.OK() {
					W.Book.Violate("C16.melt_limit", "melt_under_storage_error", "melt quote for %d sat with melt maximum %d was granted while a storage call of the request failed (%s)", amt, lim.MeltingSettings.MaxAmount, m.rc.S.LastFault)
				}
				return
			}
			if reject && (r.OK() || r.Code != 11006) {
				W.Book.Violate("C16.melt_limit", "melt", "melt quote for %d sat with melt maximum %d answered %v", amt, lim.MeltingSettings.MaxAmount, r)
			}
			if !reject && !r.OK() && r.Code == 11006 {
				W.Book.Violate("C16.melt_limit", "melt_spurious", "melt quote for %d sat refused with limit error although maximum is %d", amt, lim.MeltingSettings.MaxAmount)
			}
			return
		}
		_, r := m.Atk.ReqMintQuote(mint, amt, false)
		overMax := lim.MintingSettings.MaxAmount > 0 && amt > lim.MintingSettings.MaxAmount
		sum := new(big.Int).Add(new(big.Int).SetUint64(bal), new(big.Int).SetUint64(amt))
		overBal := lim.MaxBalance > 0 && sum.Cmp(new(big.Int).SetUint64(lim.MaxBalance)) > 0
		m.rc.S.Probe("c16_mint_quote_limit_checked")
		if sum.BitLen() > 64 && lim.MaxBalance > 0 {
			m.rc.S.Probe("c16_balance_plus_amount_overflows")
		}
		if plan != nil && plan.fired {
			m.rc.S.Probe("c16_quote_limit_under_storage_error")
			if r.OK() && (overMax || (overBal && !unresolved)) {
				W.Book.Violate("C16.max_balance", "granted_under_storage_error", "mint quote for %d sat (balance %d, mint maximum %d, maximum balance %d) was granted while a storage call of the request failed (%s)", amt, bal, lim.MintingSettings.MaxAmount, lim.MaxBalance, m.rc.S.LastFault)
			}
			return
		}
		switch {
		case overMax:
			if r.OK() || r.Code != 11006 {
				W.Book.Violate("C16.mint_limit", "mintmax", "mint quote for %d sat with mint maximum %d answered %v", amt, lim.MintingSettings.MaxAmount, r)
			}
		case overBal && !unresolved:
			if r.OK() || r.Code != 20003 {
				W.Book.Violate("C16.max_balance", "maxbalance", "mint quote for %d sat with balance %d and maximum balance %d answered %v", amt, bal, lim.MaxBalance, r)
			}
		case !overBal && !overMax && !unresolved:
			if !r.OK() && (r.Code == 11006 || r.Code == 20003) {
				W.Book.Violate("C16.spurious_limit", "mint", "mint quote for %d sat (balance %d, limits %+v) refused with a limit error: %v", amt, bal, lim, r)
			}
		}
	})
	m.rc.Nontrivial = true
}

// StepFillToMax: mint exactly up to the maximum balance, so that "balance has reached the maximum" occurs.
func (m *MW) StepFillToMax() {
	mint := "A"
	W := m.W
	lim := W.Mints[mint].Cfg.Limits
	if lim.MaxBalance == 0 || len(m.Pending) > 0 || len(W.LN.InflightKeys()) > 0 {
		m.StepFund()
		return
	}
	W.Book.FinalizeMelts()
	bi, br := m.bookTotals(mint)
	var ti, tr uint64
	for _, v := range bi {
		ti += v
	}
	for _, v := range br {
		tr += v
	}
	if ti-tr >= lim.MaxBalance {
		return
	}
	room := lim.MaxBalance - (ti - tr)
	if lim.MintingSettings.MaxAmount > 0 && room > lim.MintingSettings.MaxAmount {
		room = lim.MintingSettings.MaxAmount
	}
	m.rc.Op(fmt.Sprintf("fill-to-max %d", room))
	ks := W.ActiveKeyset(mint)
	m.begin()
	m.rc.S.Run1(m.name("fill"), W.Ext, func() {
		q, _ := m.User.ReqMintQuote(mint, room, false)
		if q == nil {
			return
		}
		W.LN.PayExternal(q.Hash)
		m.User.Mint(mint, q, W.NewOutputs(Split(room), ks.ID), "")
		m.rc.S.Probe("c16_filled_to_max")
	})
}

func runC16(rc *RunCtx) {
	T := rc.T
	pick := func(site string, param string, small, boundary uint64) uint64 {
		c := rc.P(param, -1)
		if c < 0 {
			c = T.Choose(site, 3)
		}
		switch c {
		case 1:
			return small
		case 2:
			return boundary
		}
		return 0
	}
	lim := gmint.MintLimits{}
	lim.MaxBalance = pick("cfg.maxbal", "maxbal", 300, 355)
	lim.MintingSettings.MaxAmount = pick("cfg.mintmax", "mintmax", 50, 255)
	lim.MeltingSettings.MaxAmount = pick("cfg.meltmax", "meltmax", 20, 100)
	fee := []uint{0, 100, 1000}[T.Choose("cfg.fee", 3)]
	ln := LNConfig{FeePolicy: T.Choose("cfg.feepol", 3), PayOutcomeMix: T.Choose("cfg.mix", 2)}
	// "whale" configuration: one holder owns more than 2^53 sat (sums no longer fit a float64 mantissa);
	// a configured maximum balance is shifted up by that amount so that all boundaries sit on large numbers
	amt := uint64(255)
	if lim.MintingSettings.MaxAmount > 0 && lim.MintingSettings.MaxAmount < amt {
		amt = lim.MintingSettings.MaxAmount
	}
	whale := rc.P("whale", -1)
	if whale < 0 {
		whale = 0
		if T.Chance("cfg.whale", 1, 4) {
			whale = 1 + T.Choose("cfg.whale.kind", 2)
		}
	}
	if lim.MintingSettings.MaxAmount > 0 {
		whale = 0
	}
	whaleAmt := uint64(1)<<53 + 1 + amt%2 // the total after both fundings is odd
	if whale > 0 && lim.MaxBalance > 0 {
		lim.MaxBalance += whaleAmt
	}
	if whale > 0 {
		ln.MaxInvoiceSat = 1 << 54
	}
	rc.NewMintWorld(ln, MintOpts{Fee: fee, Limits: lim})
	m := NewMW(rc, "A")
	m.Locks = true
	m.Fees = map[string][]uint64{"A": {uint64(fee), 100, 0}}
	rc.Quietly(func() {
		// fund within the limits
		m.User.Fund("A", amt)
		if whale > 0 {
			wa := NewActor(rc.W, "whale")
			ps := wa.Fund("A", whaleAmt)
			rc.S.Probe("c16_whale_funded")
			if whale == 2 {
				// ... and spends it once, so that the redeemed side is as large
				f := m.feeFor("A", ps)
				ks := rc.W.ActiveKeyset("A")
				if _, r := wa.Swap("A", ps, rc.W.NewOutputs(Split(SumH(ps)-f), ks.ID)); r.OK() {
					rc.S.Probe("c16_whale_swapped")
				}
			}
		}
	})
	m.CheckBalances("A", "start")
	// weights:       fund swap melt resolve replay dup race checkstate restore restart clock adv internal rotate
	weights := []int{1, 4, 4, 2, 1, 0, 1, 0, 0, 2, 0, 1, 1, 0, 1}
	// a separate configuration injects storage errors into ordinary operations; from the first
	// injected error on, the comparison is the relaxed one of checkBalancesFaulted and the limit
	// predicates (which need the exact balance) are no longer judged
	faults := rc.P("faults", -1)
	if faults < 0 {
		faults = 0
		if T.Chance("cfg.faults", 1, 3) {
			faults = 1
		}
	}
	if faults == 2 {
		m.Faulted = true
		m.step = 0
		m.NextPlans = []*FaultPlan{{Node: "A", Kind: "db_error", SeamKind: "db", Pos: rc.P("fpos", 1)}}
		m.Step(rc.P("fop", 1), true)
		m.CheckBalances("A", "step")
		for i, k := range []int{1, 2, 1} {
			m.step = 1 + i
			m.Step(k, true)
			m.CheckBalances("A", "step")
		}
		m.BeforeAudit = func() { m.CheckBalances("A", "settled") }
		m.Finale()
		m.CheckBalances("A", "after drain")
		return
	}
	rc.StepLoop(3, 14, func(i int) {
		m.step = i
		if faults == 1 && T.Chance("fault.step", 1, 2) {
			m.Faulted = true
			m.NextPlans = []*FaultPlan{{Node: "A", Kind: "db_error", SeamKind: "db", Pos: 1 + T.Choose("fault.pos", 12)}}
			m.Step([]int{1, 1, 2, 0, 12}[T.Choose("fault.op", 5)], true)
			m.CheckBalances("A", "step")
			return
		}
		if T.Chance("limits", 1, 2) && !m.Faulted {
			m.StepQuoteLimits()
		} else if T.Chance("fill", 1, 4) && !m.Faulted {
			m.StepFillToMax()
		} else {
			m.Step(T.Pick("step.kind", weights...), true)
		}
		m.CheckBalances("A", "step")
	})
	m.BeforeAudit = func() { m.CheckBalances("A", "settled") }
	m.Finale()
	m.CheckBalances("A", "after drain")
}
