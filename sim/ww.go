package sim

import (
	"encoding/json"
	"fmt"
	"sort"
	"strings"
	"time"

	"github.com/btcsuite/btcd/btcec/v2"
	"github.com/elnosh/gonuts/cashu"
	"github.com/elnosh/gonuts/cashu/nuts/nut11"
	gmint "github.com/elnosh/gonuts/mint"
	"github.com/elnosh/gonuts/wallet"
)

// WW is the wallet-level workload: 2-3 real wallets, 1-2 real mints, tokens travelling
// through the token channel. Profiles C08, C17, C18, C19 (and C10, C14) use it.

type OutToken struct {
	Str     string
	Proofs  cashu.Proofs
	From    string
	Mint    string // mint name
	Amount  uint64 // what the sender asked to send
	Fees    bool
	Kind    string // plain | p2pk | htlc
	To      string // intended receiver for locked tokens
	Pre     string // htlc preimage
	Claimed bool
}

type WW struct {
	rc      *RunCtx
	W       *World
	T       *Tape
	Wallets []string
	Mints   []string
	Fees    map[string]uint64 // current active fee per mint (operator knowledge)
	Tokens  []*OutToken
	PendQ   map[string][]string // wallet -> melt quote ids that may be pending
	step    int
	Rotated map[string]int
	Det     map[string]*DetTable // per wallet
	// what the harness did
	MintedIn     map[string]uint64 // per mint: sat paid in over Lightning for wallet mint quotes
	Strict       bool
	NoFaults     bool
	forceSendAll bool
	forceSend    *forcedSend // fixed scenarios: who sends how much with which fee flag
	// NextPlans: fault plans for the next wallet operation of send / receive / melt / reclaim (consumed by it)
	NextPlans []*FaultPlan
	LastOp    string
	opLog     []opMark
	// notUnspentSeen: wallet|Y of spendable proofs already reported as not UNSPENT at the mint
	notUnspentSeen map[string]bool
	Deficit        map[string]int64
	nRestore       int
	Crashed        map[string]bool // wallets whose process was killed at some point
	sigMon         map[string]int
	forceDLEQ      bool
	emptyUsed      bool
}

func (rc *RunCtx) NewWalletWorld(ln LNConfig, mintFees []uint, nWallets int) *WW {
	opts := make([]MintOpts, len(mintFees))
	for i, f := range mintFees {
		opts[i] = MintOpts{Fee: f}
	}
	rc.NewMintWorld(ln, opts...)
	ww := &WW{rc: rc, W: rc.W, T: rc.T, Fees: map[string]uint64{}, PendQ: map[string][]string{}, Rotated: map[string]int{},
		Det: map[string]*DetTable{}, MintedIn: map[string]uint64{}, Deficit: map[string]int64{}, Crashed: map[string]bool{}}
	for i, f := range mintFees {
		name := string(rune('A' + i))
		ww.Mints = append(ww.Mints, name)
		ww.Fees[name] = uint64(f)
	}
	rc.Quietly(func() {
		for i := 0; i < nWallets; i++ {
			name := fmt.Sprintf("w%d", i+1)
			home := ww.Mints[i%len(ww.Mints)]
			if _, err := rc.W.StartWallet(name, home); err != nil {
				harnessf("start wallet: %v", err)
			}
			ww.Wallets = append(ww.Wallets, name)
		}
	})
	return ww
}

func (ww *WW) name(k string) string { return fmt.Sprintf("s%d.%s", ww.step, k) }

func (ww *WW) pickWallet() string {
	var live []string
	for _, w := range ww.Wallets {
		if n := ww.node(w); n != nil && n.W != nil && n.Inc != nil && n.Inc.Alive {
			live = append(live, w)
		}
	}
	if len(live) == 0 {
		harnessf("no live wallet left")
	}
	return live[ww.T.Choose("wallet", len(live))]
}

func (ww *WW) node(w string) *WalletNode { return ww.W.Wallets[w] }

func (ww *WW) mintURL(m string) string { return "http://" + m }

// trusted mints of a wallet (names), sorted
func (ww *WW) walletMints(w string) []string {
	n := ww.node(w)
	var out []string
	for _, u := range n.W.TrustedMints() {
		out = append(out, mintNameOfURL(u))
	}
	sort.Strings(out)
	return out
}

func (ww *WW) balanceAt(w, mint string) uint64 {
	n := ww.node(w)
	var b uint64
	ids := ww.W.Book.Mint(mint).Keysets
	for _, p := range n.Inner.GetProofs() {
		if _, ok := ids[p.Id]; ok {
			b += p.Amount
		}
	}
	return b
}

// ---- steps ----

func (ww *WW) StepMint() {
	w := ww.pickWallet()
	mints := ww.walletMints(w)
	mint := mints[ww.T.Choose("mint.at", len(mints))]
	amount := uint64(1 + ww.T.Choose("mint.amt", 200))
	if ww.T.Chance("mint.big", 1, 5) {
		amount = uint64(500 + ww.T.Choose("mint.bigamt", 3000))
	}
	ww.op("w.mint")
	var got uint64
	var err error
	ww.W.WalletOp(w, ww.name("mint."+w), nil, func(wl *wallet.Wallet) {
		q, e := wl.RequestMint(amount, ww.mintURL(mint))
		if e != nil {
			err = e
			return
		}
		mq := ww.W.Book.Mint(mint).MQ[q.Quote]
		if mq == nil {
			err = fmt.Errorf("quote not seen")
			return
		}
		if ww.W.LN.PayExternal(mq.Hash) {
			ww.MintedIn[mint] += amount
		}
		got, err = wl.MintTokens(q.Quote)
	})
	if err != nil {
		if ww.Strict {
			fp := "mint"
			// refused because the wallet re-submitted an output the mint had signed before: name
			// the operation that got it signed without advancing the wallet's counter (the cause)
			if origin := ww.resubmittedOrigin(w); origin != "" {
				fp = "mint|already-signed|first-signed-during:" + origin
			}
			ww.W.Book.Violate("C17.honest_failed", fp, "wallet mint of %d sat failed against an honest mint: %v", amount, err)
		}
		return
	}
	if got != amount {
		ww.W.Book.Violate("C17.mint_amount", "mint", "MintTokens returned %d for a quote of %d", got, amount)
	}
}

// feeOfProofs: what the mint will charge for these very proofs (operator knowledge of keyset fees).
func (ww *WW) feeOfProofs(mint string, ps cashu.Proofs) uint64 {
	mb := ww.W.Book.Mint(mint)
	var ppk uint64
	for _, p := range ps {
		if ks := mb.Keysets[p.Id]; ks != nil {
			ppk += ks.Fee
		}
	}
	return (ppk + 999) / 1000
}

func keysetsOf(ps cashu.Proofs) int {
	s := map[string]bool{}
	for _, p := range ps {
		s[p.Id] = true
	}
	return len(s)
}

func (ww *WW) takePlans() []*FaultPlan {
	p := ww.NextPlans
	ww.NextPlans = nil
	return p
}

// StepSend: Wallet.Send; the C18 oracle judges the returned proofs; the token goes to the channel.
type forcedSend struct {
	w      string
	amount uint64
	fees   bool
}

func (ww *WW) StepSend() *OutToken {
	w := ww.pickWallet()
	if ww.forceSend != nil {
		w = ww.forceSend.w
	}
	mints := ww.walletMints(w)
	mint := mints[ww.T.Choose("send.at", len(mints))]
	bal := ww.balanceAt(w, mint)
	if bal < 2 {
		ww.StepMint()
		return nil
	}
	amount := uint64(1 + ww.T.Choose("send.amt", int(bal)))
	if ww.T.Chance("send.small", 1, 2) && bal > 20 {
		amount = uint64(1 + ww.T.Choose("send.amt2", 20))
	}
	if ww.forceSendAll {
		amount = bal - bal/8 - 1 // nearly everything: proofs of every keyset held are needed
	}
	fees := ww.T.Chance("send.fees", 1, 2)
	if ww.forceSend != nil {
		amount, fees = ww.forceSend.amount, ww.forceSend.fees
	}
	ww.op(fmt.Sprintf("w.send fees=%v", fees))
	n := ww.node(w)
	before := n.View()
	var proofs cashu.Proofs
	var err error
	ww.W.WalletOp(w, ww.name("send."+w), ww.takePlans(), func(wl *wallet.Wallet) {
		proofs, err = wl.Send(amount, ww.mintURL(mint), fees)
	})
	allFee := ww.feeOfProofs(mint, before.Proofs)
	if err != nil {
		// liveness clause of C18: a send of no more than balance - fee(all proofs) - fee(sent) must succeed
		ww.rc.S.Probe("c18_send_failed")
		// generous upper bound for fee(sent proofs): a send needs at most the bits of the amount plus a
		// handful of extra proofs for the fees, charged at the highest fee rate of the mint's keysets
		var maxPpk uint64
		for _, ks := range ww.W.Book.Mint(mint).Keysets {
			if ks.Fee > maxPpk {
				maxPpk = ks.Fee
			}
		}
		nSent := uint64(len(Split(amount)) + 10)
		maxSentFee := (nSent*maxPpk + 999) / 1000
		if ww.NoFaults && amount+allFee+maxSentFee <= bal {
			ww.W.Book.Violate("C18.send_refused", fmt.Sprintf("fees=%v", fees), "Send(%d, fees=%v) failed with balance %d at the mint and fee for all held proofs %d: %v", amount, fees, bal, allFee, err)
		}
		return nil
	}
	ww.rc.S.Probe("c18_send_ok")
	tok := &OutToken{Proofs: proofs, From: w, Mint: mint, Amount: amount, Fees: fees, Kind: "plain"}
	ww.judgeSend(tok, before)
	v4 := keysetsOf(proofs) == 1 && ww.T.Chance("send.v4", 1, 2)
	dleq := ww.T.Chance("send.dleq", 1, 2)
	if ww.forceDLEQ {
		dleq = true
	}
	if dleq && keysetsOf(proofs) > 1 {
		ww.rc.S.Probe("mixed_keyset_token_with_dleq")
	}
	s, terr := MakeToken(proofs, ww.mintURL(mint), v4, dleq)
	if terr != nil {
		// e.g. DLEQ requested but proofs carry none: fall back
		s, terr = MakeToken(proofs, ww.mintURL(mint), false, false)
	}
	if terr != nil {
		ww.W.Book.Violate("C14.serialize_failed", "send", "could not serialise proofs returned by Send: %v", terr)
		return nil
	}
	tok.Str = s
	ww.Tokens = append(ww.Tokens, tok)
	return tok
}

// judgeSend is the C18 oracle.
func (ww *WW) judgeSend(tok *OutToken, before WalletView) {
	W := ww.W
	sum := tok.Proofs.Amount()
	fee := ww.feeOfProofs(tok.Mint, tok.Proofs)
	want := tok.Amount
	if tok.Fees {
		want += fee
	}
	fp := fmt.Sprintf("fees=%v", tok.Fees)
	if sum != want {
		W.Book.Violate("C18.amount", fp, "Send(%d, includeFees=%v) handed out %d proofs worth %d; the mint charges %d for these proofs, so exactly %d was due",
			tok.Amount, tok.Fees, len(tok.Proofs), sum, fee, want)
	}
	seen := map[string]bool{}
	var Ys []string
	for _, p := range tok.Proofs {
		if seen[p.Secret] {
			W.Book.Violate("C18.duplicate", fp, "Send handed out the same proof twice")
		}
		seen[p.Secret] = true
		Ys = append(Ys, hY(p.Secret))
	}
	st := W.MintState(tok.Mint, Ys)
	for _, y := range Ys {
		if st[y] != "UNSPENT" {
			W.Book.Violate("C18.not_unspent", fp, "Send handed out a proof that is %s at the mint", st[y])
		}
	}
	after := ww.node(tok.From).View()
	for _, p := range after.Proofs {
		if seen[p.Secret] {
			W.Book.Violate("C18.still_spendable", fp, "a proof handed out by Send is still in the sender's spendable set")
		}
	}
	ww.rc.S.Probe("c18_send_judged")
	if tok.Fees && fee > 0 {
		ww.rc.S.Probe("c18_send_with_fee")
	}
	ww.rc.Nontrivial = true
}

// StepReceive: a pending token reaches a wallet (the intended one for locked tokens).
func (ww *WW) StepReceive() {
	var cands []*OutToken
	for _, t := range ww.Tokens {
		if !t.Claimed {
			cands = append(cands, t)
		}
	}
	if len(cands) == 0 {
		ww.StepSend()
		return
	}
	tok := cands[ww.T.Choose("recv.tok", len(cands))]
	to := tok.To
	if to == "" {
		others := []string{}
		for _, w := range ww.Wallets {
			if n := ww.node(w); n == nil || n.W == nil {
				continue
			}
			if w != tok.From || ww.T.Chance("recv.self", 1, 6) {
				others = append(others, w)
			}
		}
		if len(others) == 0 {
			return
		}
		to = others[ww.T.Choose("recv.to", len(others))]
	}
	swapToTrusted := ww.T.Chance("recv.swaptrusted", 1, 3)
	sigall := false
	if len(tok.Proofs) > 0 && strings.Contains(tok.Proofs[0].Secret, "SIG_ALL") {
		sigall = true
	}
	cross := swapToTrusted && mintNameOfURL(ww.node(to).Mint) != tok.Mint
	ww.op(fmt.Sprintf("w.receive %s sigall=%v crossmint=%v", tok.Kind, sigall, cross))
	var got uint64
	var err error
	ww.W.WalletOp(to, ww.name("recv."+to), ww.takePlans(), func(wl *wallet.Wallet) {
		t, derr := cashu.DecodeToken(tok.Str)
		if derr != nil {
			err = derr
			return
		}
		if tok.Kind == "htlc" {
			got, err = wl.ReceiveHTLC(t, tok.Pre)
		} else {
			got, err = wl.Receive(t, swapToTrusted)
		}
	})
	if err != nil {
		ww.rc.S.Probe("w_receive_failed")
		if strings.Contains(err.Error(), "invalid DLEQ") {
			// a token built from the mint's own signatures carries valid DLEQ proofs (C10)
			ww.W.Book.Violate("C10.valid_dleq_rejected", "receive", "wallet refused a token with valid DLEQ proofs: %v", err)
		}
		return
	}
	tok.Claimed = true
	ww.rc.S.Probe("w_receive_ok_" + tok.Kind)
	// C18: with fees included the recipient nets exactly the requested amount (same mint, no cross-mint swap)
	home := mintNameOfURL(ww.node(to).Mint)
	if tok.Kind == "plain" && tok.Fees && !(swapToTrusted && home != tok.Mint) {
		if got != tok.Amount {
			ww.W.Book.Violate("C18.recipient_net", "fees=true", "recipient netted %d from a send of %d with fees included (token worth %d)", got, tok.Amount, tok.Proofs.Amount())
		}
		ww.rc.S.Probe("c18_recipient_checked")
	}
}

// StepOutsideRedeem: a token a wallet returned to its caller is redeemed by somebody who is not one
// of the simulated wallets (other Cashu software): a plain swap built by hand, which may carry a
// witness string on the (plain) inputs - the mint stores it and reports it with the SPENT state.
// What the outsider obtains is again a token in nobody's wallet.
func (ww *WW) StepOutsideRedeem(witness string) bool {
	var cands []*OutToken
	for _, t := range ww.Tokens {
		if !t.Claimed && t.Kind == "plain" && len(t.Proofs) > 0 {
			cands = append(cands, t)
		}
	}
	if len(cands) == 0 {
		return false
	}
	tok := cands[ww.T.Choose("outside.tok", len(cands))]
	fee := ww.feeOfProofs(tok.Mint, tok.Proofs)
	total := tok.Proofs.Amount()
	if total <= fee {
		return false
	}
	ww.op(fmt.Sprintf("outsider.redeem witness=%v", witness != ""))
	a := NewActor(ww.W, ww.name("outsider"))
	var ins []*HProof
	for _, p := range tok.Proofs {
		ins = append(ins, &HProof{Amount: p.Amount, ID: p.Id, Secret: p.Secret, C: p.C, Witness: witness, Mint: tok.Mint})
	}
	ks := ww.W.ActiveKeyset(tok.Mint)
	outs := ww.W.NewOutputs(Split(total-fee), ks.ID)
	var ps []*HProof
	var r *Resp
	ww.rc.Quietly(func() { ps, r = a.Swap(tok.Mint, ins, outs) })
	if r == nil || !r.OK() {
		ww.rc.S.Probe("outside_redeem_refused")
		return false
	}
	tok.Claimed = true
	ww.rc.S.Probe("outside_redeem_ok")
	if witness != "" {
		ww.rc.S.Probe("outside_redeem_with_witness")
	}
	var cps cashu.Proofs
	for _, p := range ps {
		cps = append(cps, cashu.Proof{Amount: p.Amount, Id: p.ID, Secret: p.Secret, C: p.C})
	}
	str, err := MakeToken(cps, ww.mintURL(tok.Mint), false, false)
	if err != nil {
		harnessf("outsider token: %v", err)
	}
	ww.Tokens = append(ww.Tokens, &OutToken{Str: str, Proofs: cps, From: "outsider", Mint: tok.Mint, Amount: cps.Amount(), Kind: "plain"})
	return true
}

// StepSendLocked: P2PK or HTLC locked ecash for another wallet.
func (ww *WW) StepSendLocked() {
	if len(ww.Wallets) < 2 {
		ww.StepSend()
		return
	}
	w := ww.pickWallet()
	var others []string
	for _, x := range ww.Wallets {
		if n := ww.node(x); x != w && n != nil && n.W != nil {
			others = append(others, x)
		}
	}
	if len(others) == 0 {
		return
	}
	to := others[ww.T.Choose("lock.to", len(others))]
	mints := ww.walletMints(w)
	mint := mints[ww.T.Choose("lock.at", len(mints))]
	bal := ww.balanceAt(w, mint)
	if bal < 8 {
		ww.StepMint()
		return
	}
	amount := uint64(1 + ww.T.Choose("lock.amt", int(bal/2)))
	htlc := ww.T.Chance("lock.htlc", 1, 2)
	sigall := ww.T.Chance("lock.sigall", 1, 3)
	fees := ww.T.Chance("lock.fees", 1, 2)
	ww.op(fmt.Sprintf("w.sendlocked htlc=%v sigall=%v", htlc, sigall))
	toKey := ww.node(to).W.GetReceivePubkey()
	var proofs cashu.Proofs
	var err error
	pre := randHex(32)
	ww.W.WalletOp(w, ww.name("lock."+w), nil, func(wl *wallet.Wallet) {
		tags := &nut11.P2PKTags{}
		if sigall {
			tags.Sigflag = nut11.SIGALL
		}
		if htlc {
			tags.NSigs = 1
			tags.Pubkeys = []*btcec.PublicKey{toKey}
			proofs, err = wl.HTLCLockedProofs(amount, ww.mintURL(mint), pre, tags, fees)
		} else {
			proofs, err = wl.SendToPubkey(amount, ww.mintURL(mint), toKey, tags, fees)
		}
	})
	if err != nil {
		ww.rc.S.Probe("w_sendlocked_failed")
		return
	}
	kind := "p2pk"
	if htlc {
		kind = "htlc"
	}
	s, terr := MakeToken(proofs, ww.mintURL(mint), keysetsOf(proofs) == 1 && ww.T.Chance("lock.v4", 1, 2), ww.T.Chance("lock.dleq", 1, 2))
	if terr != nil {
		s, terr = MakeToken(proofs, ww.mintURL(mint), false, false)
	}
	if terr != nil {
		return
	}
	ww.Tokens = append(ww.Tokens, &OutToken{Str: s, Proofs: proofs, From: w, Mint: mint, Amount: amount, Fees: fees, Kind: kind, To: to, Pre: pre})
	ww.rc.S.Probe("w_sendlocked_" + kind)
}

// StepMelt: pay an external invoice; the Lightning model decides the outcome.
func (ww *WW) StepMelt() {
	w := ww.pickWallet()
	mints := ww.walletMints(w)
	mint := mints[ww.T.Choose("melt.at", len(mints))]
	bal := ww.balanceAt(w, mint)
	if bal < 8 {
		ww.StepMint()
		return
	}
	amount := uint64(1 + ww.T.Choose("melt.amt", int(bal/2)))
	ww.op("w.melt")
	inv := ww.W.LN.NewExternalInvoice(amount * 1000)
	var state string
	var err error
	var qid string
	ww.W.WalletOp(w, ww.name("melt."+w), ww.takePlans(), func(wl *wallet.Wallet) {
		q, e := wl.RequestMeltQuote(inv.Bolt11, ww.mintURL(mint))
		if e != nil {
			err = e
			return
		}
		qid = q.Quote
		r, e := wl.Melt(q.Quote)
		if e != nil {
			err = e
			return
		}
		state = r.State.String()
	})
	if qid != "" {
		ww.PendQ[w] = append(ww.PendQ[w], qid)
	}
	ww.rc.S.Probe("w_melt_" + state)
	_ = err
}

// StepInternalMelt: one wallet pays, by a melt, the invoice of another wallet's mint quote at the SAME
// mint: the mint settles the two quotes internally (no Lightning payment, fee reserve 0), then the
// payee mints.
func (ww *WW) StepInternalMelt() {
	var payer, payee, mint string
	for _, w := range ww.Wallets {
		n := ww.node(w)
		if n == nil || n.W == nil {
			continue
		}
		m := mintNameOfURL(n.Mint)
		if payer == "" && ww.balanceAt(w, m) >= 8 {
			payer, mint = w, m
		}
	}
	for _, w := range ww.Wallets {
		if n := ww.node(w); n != nil && n.W != nil && w != payer {
			payee = w
		}
	}
	if payer == "" || payee == "" {
		ww.StepMint()
		return
	}
	amount := uint64(1 + ww.T.Choose("imelt.amt", int(ww.balanceAt(payer, mint)/2)))
	ww.op("w.internal-melt")
	var invoice, mintQuote string
	ww.W.WalletOp(payee, ww.name("imq."+payee), nil, func(wl *wallet.Wallet) {
		if q, e := wl.RequestMint(amount, ww.mintURL(mint)); e == nil {
			invoice, mintQuote = q.Request, q.Quote
		}
	})
	if invoice == "" {
		return
	}
	state := "error"
	ww.W.WalletOp(payer, ww.name("imelt."+payer), ww.takePlans(), func(wl *wallet.Wallet) {
		q, e := wl.RequestMeltQuote(invoice, ww.mintURL(mint))
		if e != nil {
			return
		}
		ww.PendQ[payer] = append(ww.PendQ[payer], q.Quote)
		if r, e := wl.Melt(q.Quote); e == nil {
			state = r.State.String()
		}
	})
	ww.rc.S.Probe("w_internal_melt_" + state)
	ww.W.WalletOp(payee, ww.name("imint."+payee), nil, func(wl *wallet.Wallet) { wl.MintTokens(mintQuote) })
}

// mintInto: wallet w mints amount at its own mint (fixed scenarios need funds in a particular wallet).
func (ww *WW) mintInto(w string, amount uint64) {
	mint := mintNameOfURL(ww.node(w).Mint)
	ww.op("w.mint")
	ww.W.WalletOp(w, ww.name("mint."+w), nil, func(wl *wallet.Wallet) {
		q, e := wl.RequestMint(amount, ww.mintURL(mint))
		if e != nil {
			return
		}
		if mq := ww.W.Book.Mint(mint).MQ[q.Quote]; mq != nil {
			if ww.W.LN.PayExternal(mq.Hash) {
				ww.MintedIn[mint] += amount
			}
		}
		wl.MintTokens(q.Quote)
	})
}

// StepReload: the wallet program exits and is started again on the same directory (what every
// invocation of a command-line wallet does): everything it knows must come back from its storage.
func (ww *WW) StepReload() {
	w := ww.pickWallet()
	n := ww.node(w)
	if n == nil || n.W == nil {
		return
	}
	ww.op("w.reload")
	ww.rc.Quietly(func() {
		ww.W.StopWallet(w)
		if _, err := ww.W.StartWallet(w, mintNameOfURL(n.Mint)); err != nil {
			ww.W.Book.Violate("W.reload_failed", "reload", "wallet does not load again after a clean shutdown: %v", err)
		}
	})
	ww.rc.S.Probe("w_reload")
}

// StepClock: time passes (quotes expire; payments in flight are not affected by that).
func (ww *WW) StepClock() {
	d := []time.Duration{30 * time.Second, 11 * time.Minute, 2 * time.Hour}[ww.T.Choose("wclock.d", 3)]
	ww.op("clock+" + d.String())
	ww.rc.S.Sleep(d)
}

// StepRemelt: the wallet calls Melt again on a quote it already used (still pending, failed, or
// paid): a retry must never put a second set of proofs at risk for one payment.
func (ww *WW) StepRemelt() {
	w := ww.pickWallet()
	qs := ww.PendQ[w]
	if len(qs) == 0 {
		ww.StepMelt()
		return
	}
	qid := qs[ww.T.Choose("remelt.q", len(qs))]
	ww.op("w.remelt")
	state := "error"
	ww.W.WalletOp(w, ww.name("remelt."+w), nil, func(wl *wallet.Wallet) {
		r, e := wl.Melt(qid)
		if e == nil {
			state = r.State.String()
		}
	})
	ww.rc.S.Probe("w_remelt_" + state)
}

// StepResolveMelt: an in-flight payment reaches its outcome; the wallet checks its quote.
func (ww *WW) StepResolveMelt() {
	keys := ww.W.LN.InflightKeys()
	if len(keys) > 0 {
		k := keys[ww.T.Choose("wres.key", len(keys))]
		ww.W.LN.ResolveInflight(k, ww.T.Chance("wres.fail", 1, 2) == false)
	}
	w := ww.pickWallet()
	qs := ww.PendQ[w]
	if len(qs) == 0 {
		return
	}
	qid := qs[ww.T.Choose("wres.q", len(qs))]
	ww.op("w.checkmelt")
	ww.W.WalletOp(w, ww.name("chk."+w), nil, func(wl *wallet.Wallet) {
		wl.CheckMeltQuoteState(qid)
	})
}

// StepReclaim: the wallet reconciles its pending proofs (reclaim unspent / remove spent). Only run
// when the wallet has pending proofs at no more than one mint (gonuts iterates a map of mints there).
func (ww *WW) StepReclaim() {
	w := ww.pickWallet()
	n := ww.node(w)
	mintsWithPending := map[string]bool{}
	for _, p := range n.Inner.GetPendingProofs() {
		for _, m := range ww.Mints {
			if _, ok := ww.W.Book.Mint(m).Keysets[p.Id]; ok {
				mintsWithPending[m] = true
			}
		}
	}
	pendKeysets := map[string]bool{}
	for _, p := range n.Inner.GetPendingProofs() {
		pendKeysets[p.Id] = true
	}
	// gonuts groups the pending proofs by keyset and by mint in Go maps and builds its checkstate
	// requests in map order: with more than one group the request bytes would not replay
	if len(mintsWithPending) > 1 || len(pendKeysets) > 1 {
		return
	}
	// ... and the mint resolves the pending melt quotes behind one state check in Go map order (one
	// Lightning look-up each, §8a): the wallet's reconciliation request may name proofs of at most one
	// melt quote (found by the determinism self-test of round 2: 1 differing log in 144)
	meltQuotes := map[string]bool{}
	for _, p := range n.Inner.GetPendingProofs() {
		if p.MeltQuoteId != "" {
			meltQuotes[p.MeltQuoteId] = true
		}
	}
	if len(meltQuotes) > 1 {
		return
	}
	remove := ww.T.Chance("reclaim.remove", 1, 2)
	ww.op(fmt.Sprintf("w.reclaim remove=%v", remove))
	plans := ww.takePlans()
	var rerr error
	ww.W.WalletOp(w, ww.name("reclaim."+w), plans, func(wl *wallet.Wallet) {
		if remove {
			rerr = wl.RemoveSpentProofs()
		} else {
			_, rerr = wl.ReclaimUnspentProofs()
		}
	})
	// C17, "pending ... not yet reconciled": after a reconciliation that reported no error, what the
	// wallet handed out in tokens and the mint has since seen spent (remove-spent), or still holds unspent
	// (reclaim), is no longer pending
	if ww.NoFaults && len(plans) == 0 && rerr == nil {
		handed := map[string]string{}
		for _, t := range ww.Tokens {
			if t.From == w {
				for _, p := range t.Proofs {
					handed[p.Secret] = t.Mint
				}
			}
		}
		byMint := map[string][]string{}
		for _, p := range n.Inner.GetPendingProofs() {
			if m, ok := handed[p.Secret]; ok {
				byMint[m] = append(byMint[m], p.Y)
			}
		}
		stale := "SPENT"
		if !remove {
			stale = "UNSPENT"
		}
		mnames := make([]string, 0, len(byMint))
		for m := range byMint {
			mnames = append(mnames, m)
		}
		sort.Strings(mnames)
		for _, m := range mnames {
			st := ww.W.MintState(m, byMint[m])
			for _, y := range byMint[m] {
				if st[y] == stale {
					ww.W.Book.Violate("C17.pending_not_reconciled", fmt.Sprintf("remove=%v|%s", remove, stale),
						"after [%s] (no error) %s still counts a handed-out proof as pending that is %s at the mint", ww.LastOp, w, stale)
				}
			}
		}
		ww.rc.S.Probe("c17_reconcile_judged")
	}
	// tokens whose proofs the sender reclaimed are void now
	for _, t := range ww.Tokens {
		if !t.Claimed && t.From == w && !remove {
			var Ys []string
			for _, p := range t.Proofs {
				Ys = append(Ys, hY(p.Secret))
			}
			st := ww.W.MintState(t.Mint, Ys)
			for _, y := range Ys {
				if st[y] == "SPENT" {
					t.Claimed = true
				}
			}
		}
	}
}

// StepMintSwap: move value from one mint to another over Lightning.
func (ww *WW) StepMintSwap() {
	if len(ww.Mints) < 2 {
		ww.StepSend()
		return
	}
	w := ww.pickWallet()
	mints := ww.walletMints(w)
	if len(mints) < 2 {
		// trust the other mint first by receiving nothing: AddMint through the API
		other := ww.Mints[0]
		if other == mints[0] {
			other = ww.Mints[1]
		}
		ww.W.WalletOp(w, ww.name("addmint."+w), nil, func(wl *wallet.Wallet) { wl.AddMint(ww.mintURL(other)) })
		mints = ww.walletMints(w)
		if len(mints) < 2 {
			return
		}
	}
	from := mints[ww.T.Choose("ms.from", len(mints))]
	to := mints[0]
	if to == from {
		to = mints[1]
	}
	bal := ww.balanceAt(w, from)
	if bal < 20 {
		return
	}
	amount := uint64(10 + ww.T.Choose("ms.amt", int(bal-10)/2+1))
	ww.op("w.mintswap")
	ww.W.WalletOp(w, ww.name("mswap."+w), nil, func(wl *wallet.Wallet) {
		got, err := wl.MintSwap(amount, ww.mintURL(from), ww.mintURL(to))
		if err == nil {
			ww.rc.S.Probe("w_mintswap_ok")
			_ = got
		} else {
			ww.rc.S.Probe("w_mintswap_failed")
		}
	})
}

// StepRotate: the operator rotates a mint's keyset (at most once per mint: gonuts iterates a map of
// inactive keysets when selecting proofs, which would break replay with two or more of them).
func (ww *WW) StepRotate(fees []uint64) {
	mint := ww.Mints[ww.T.Choose("rot.mint", len(ww.Mints))]
	if ww.Rotated[mint] >= 1 {
		return
	}
	fee := fees[ww.T.Choose("rot.fee", len(fees))]
	ww.op(fmt.Sprintf("rotate %s fee=%d", mint, fee))
	ww.rc.Quietly(func() {
		err := ww.W.RestartMint(mint, func(c *gmint.Config) { c.RotateKeyset = true; c.InputFeePpk = uint(fee) })
		if err != nil {
			harnessf("rotate: %v", err)
		}
		ww.W.RefreshKeysets(mint, fee)
	})
	ww.Rotated[mint]++
	ww.Fees[mint] = fee
	ww.rc.S.Probe("rotation")
}

// ---- C17 oracle: balances truthful, every unit of ecash in exactly one place ----

func (ww *WW) CheckWallets(when string) {
	W := ww.W
	type holder struct{ where, wallet string }
	seenAt := map[string]holder{} // secret -> where
	known := map[string]map[string]uint64{}
	addKnown := func(mint, secret string, amt uint64) {
		if known[mint] == nil {
			known[mint] = map[string]uint64{}
		}
		known[mint][secret] = amt
	}
	mintOf := func(id string) string {
		for _, m := range ww.Mints {
			if _, ok := W.Book.Mint(m).Keysets[id]; ok {
				return m
			}
		}
		return ""
	}
	for _, w := range ww.Wallets {
		n := ww.node(w)
		if n.W == nil {
			continue
		}
		v := n.View()
		var sum uint64
		var Ys = map[string][]string{}
		secOf := map[string]string{}
		for _, p := range v.Proofs {
			secOf[hY(p.Secret)] = p.Secret
			sum += p.Amount
			if h, dup := seenAt[p.Secret]; dup {
				W.Book.Violate("C17.counted_twice", when, "secret held twice: spendable in %s and %s in %s", w, h.where, h.wallet)
			}
			seenAt[p.Secret] = holder{"spendable", w}
			m := mintOf(p.Id)
			Ys[m] = append(Ys[m], hY(p.Secret))
			addKnown(m, p.Secret, p.Amount)
		}
		var bal, pend uint64
		var byMint map[string]uint64
		ww.rc.Quietly(func() {
			bal = n.W.GetBalance()
			pend = n.W.PendingBalance()
			byMint = n.W.GetBalanceByMints()
		})
		if bal != sum {
			W.Book.Violate("C17.balance", when, "%s reports balance %d, holds spendable proofs worth %d", w, bal, sum)
		}
		var bm uint64
		for _, x := range byMint {
			bm += x
		}
		if bm != sum {
			W.Book.Violate("C17.balance_by_mint", when, "%s: balances by mint add up to %d, spendable proofs are worth %d", w, bm, sum)
		}
		// every spendable proof is unspent at its mint
		mintsOfYs := make([]string, 0, len(Ys))
		for m := range Ys {
			mintsOfYs = append(mintsOfYs, m)
		}
		sort.Strings(mintsOfYs)
		for _, m := range mintsOfYs {
			ys := Ys[m]
			if m == "" {
				continue
			}
			st := W.MintState(m, ys)
			for _, y := range ys {
				// each proof is reported once, attributed to the operation after which it first
				// showed up (the fingerprint names that operation, not the moment of the check)
				if st[y] != "UNSPENT" && !ww.notUnspentSeen[w+"|"+y] {
					if ww.notUnspentSeen == nil {
						ww.notUnspentSeen = map[string]bool{}
					}
					ww.notUnspentSeen[w+"|"+y] = true
					// cause: the operation in which the mint signed this proof's output
					origin := ww.signedDuring(w, secOf[y], "")
					W.Book.Violate("C17.spendable_not_unspent", "signed-during:"+origin+"|"+st[y], "after [%s] (%s) %s counts a proof as spendable that is %s at the mint; its output was signed during [%s]", ww.LastOp, when, w, st[y], origin)
				}
			}
		}
		var psum uint64
		for _, p := range v.Pending {
			psum += p.Amount
			if h, dup := seenAt[p.Secret]; dup {
				W.Book.Violate("C17.counted_twice", when, "secret held twice: pending in %s and %s in %s", w, h.where, h.wallet)
			}
			seenAt[p.Secret] = holder{"pending", w}
			addKnown(mintOf(p.Id), p.Secret, p.Amount)
		}
		if pend != psum {
			W.Book.Violate("C17.pending_balance", when, "%s reports pending balance %d, pending proofs are worth %d", w, pend, psum)
		}
		ww.rc.S.Probe("c17_wallet_checked")
	}
	// tokens returned to the caller
	for _, t := range ww.Tokens {
		for _, p := range t.Proofs {
			addKnown(t.Mint, p.Secret, p.Amount)
		}
	}
	// conservation per mint: every unit unspent (or locked) at the mint is known to somebody
	if len(W.LN.InflightKeys()) > 0 {
		return
	}
	for _, m := range ww.Mints {
		node := W.Mints[m]
		var issued, redeemed map[string]uint64
		ww.rc.Quietly(func() {
			issued, _ = node.M.IssuedEcash()
			redeemed, _ = node.M.RedeemedEcash()
		})
		var ti, tr uint64
		for _, v := range issued {
			ti += v
		}
		for _, v := range redeemed {
			tr += v
		}
		outstanding := ti - tr
		var ys []string
		amt := map[string]uint64{}
		for sec, a := range known[m] {
			y := hY(sec)
			ys = append(ys, y)
			amt[y] = a
		}
		sort.Strings(ys)
		st := W.MintState(m, ys)
		var knownLive uint64
		for _, y := range ys {
			if st[y] != "SPENT" {
				knownLive += amt[y]
			}
		}
		// report a change of the deficit once, attributed to the operation after which it appeared
		deficit := int64(outstanding) - int64(knownLive)
		if deficit != ww.Deficit[m] {
			W.Book.Violate("C17.value_lost", ww.LastOp, "after [%s] mint %s: outstanding ecash (issued %d - redeemed %d) = %d, but wallets and tokens hold live proofs worth %d (deficit %d, before %d)",
				ww.LastOp, m, ti, tr, outstanding, knownLive, deficit, ww.Deficit[m])
			ww.Deficit[m] = deficit
		}
		ww.rc.S.Probe("c17_conservation_checked")
	}
}

// Settle: resolve payments, let wallets reconcile, used before final checks.
func (ww *WW) Settle() {
	ww.rc.S.Quiet = true
	ww.rc.S.Drain()
	for _, k := range ww.W.LN.InflightKeys() {
		p := ww.W.LN.Payments[k]
		ww.W.LN.ResolveInflight(k, p.Seq%2 == 0)
	}
	for _, w := range ww.Wallets {
		for _, q := range ww.PendQ[w] {
			ww.W.WalletOp(w, "settle."+w, nil, func(wl *wallet.Wallet) { wl.CheckMeltQuoteState(q) })
		}
	}
	ww.W.Book.FinalizeMelts()
}

// walletRequestBodies returns the observations sent by a wallet.
func (ww *WW) obsOf(w string) []*HTTPObs {
	var out []*HTTPObs
	for _, o := range ww.W.Net.Obs {
		if o.From == w {
			out = append(out, o)
		}
	}
	return out
}

func jsonStrings(v any, path string, visit func(path, s string)) {
	switch x := v.(type) {
	case map[string]any:
		for k, c := range x {
			jsonStrings(c, path+"."+k, visit)
		}
	case []any:
		for _, c := range x {
			jsonStrings(c, path+"[]", visit)
		}
	case string:
		visit(path, x)
	}
}

var _ = json.Marshal
var _ = strings.ToLower

func (ww *WW) op(kind string) {
	ww.LastOp = kind
	ww.W.LastWalletOp = kind
	ww.rc.Op(kind)
	ww.opLog = append(ww.opLog, opMark{ww.rc.S.EvSeq, kind})
}

type opMark struct {
	Seq  int
	Kind string
}

// opAt: the wallet-level operation during which event seq happened.
func (ww *WW) opAt(seq int) string {
	kind := "setup"
	for _, m := range ww.opLog {
		if m.Seq > seq {
			break
		}
		kind = m.Kind
	}
	return kind
}

// resubmittedOrigin: if the last request of wallet w that the mint refused carried an output the mint
// had already signed, the operation during which that output was signed; "" otherwise.
func (ww *WW) resubmittedOrigin(w string) string {
	obs := ww.W.Net.Obs
	for i := len(obs) - 1; i >= 0 && i >= len(obs)-12; i-- {
		o := obs[i]
		if o.From != w || o.Method != "POST" || o.Status == 200 {
			continue
		}
		var req struct {
			Outputs []JOutput `json:"outputs"`
		}
		if json.Unmarshal(o.Req, &req) != nil {
			continue
		}
		mb := ww.W.Book.Mint(o.Mint)
		for _, out := range req.Outputs {
			if sg := mb.Sigs[out.B_]; sg != nil && sg.Seq < o.Seq {
				return ww.opAt(sg.Seq)
			}
		}
	}
	return ""
}

// signedDuring: for a deterministic output of wallet w (by secret or B_), the operation during
// which the mint first signed it; "" if it is not a deterministic output of w or was never signed.
func (ww *WW) signedDuring(w, secret, b string) string {
	if ww.node(w).W == nil {
		return ""
	}
	ww.extendDet(w, 30)
	d := ww.Det[w]
	if b == "" {
		e := d.bySec[secret]
		if e == nil {
			return ""
		}
		b = e.B_
	}
	for _, m := range ww.Mints {
		if sg := ww.W.Book.Mint(m).Sigs[b]; sg != nil {
			return ww.opAt(sg.Seq)
		}
	}
	return ""
}
