package sim

import (
	"fmt"
	"sort"
	"strings"
)

// C09 — keyset lifecycle: deterministic keys, exactly one active keyset, old ecash stays valid
// and is charged its own keyset's fee.

func init() {
	Register(&Profile{Prop: "C09", Fatal: []string{"C09.", "C02.swap_balance", "C04.honest_rejected", "C10."}, Run: runC09, Core: coreC09})
}

var c09Fees = []uint64{0, 100, 250, 1000, 2500}

func coreC09(tier string) []RunSpec {
	var out []RunSpec
	// generations 1..5 with restart-rotation / runtime-rotation patterns
	for gens := 1; gens <= 5; gens++ {
		for pat := 0; pat < 4; pat++ {
			out = append(out, RunSpec{Profile: "core:generations", Params: map[string]int{"gens": gens, "pat": pat}})
		}
	}
	return out
}

type ksView struct {
	Active bool
	Fee    uint64
	Keys   map[uint64]string
}

// KeysetAudit compares what the mint publishes with the harness's own derivations and
// with what it published before.
func (m *MW) KeysetAudit(mint string, prev map[string]ksView, why string) map[string]ksView {
	W := m.W
	a := NewActor(W, "ksaudit")
	cur := map[string]ksView{}
	var r *Resp
	m.rc.Quietly(func() { r = a.Get(mint, "/v1/keysets") })
	if !r.OK() {
		W.Book.Violate("C09.keysets_unavailable", why, "GET /v1/keysets failed after %s: %v", why, r)
		return prev
	}
	list, _ := r.Body["keysets"].([]any)
	nActive := 0
	activeID := ""
	for _, it := range list {
		km, _ := it.(map[string]any)
		id, _ := km["id"].(string)
		v := ksView{Keys: map[uint64]string{}}
		v.Active, _ = km["active"].(bool)
		if f, ok := km["input_fee_ppk"].(float64); ok {
			v.Fee = uint64(f)
		}
		if u, _ := km["unit"].(string); u != "sat" {
			W.Book.Violate("C09.unit", why, "keyset %s has unit %q", id, u)
		}
		if v.Active {
			nActive++
			activeID = id
		}
		var kr *Resp
		m.rc.Quietly(func() { kr = a.Get(mint, "/v1/keys/"+id) })
		if kr.OK() {
			if arr, ok := kr.Body["keysets"].([]any); ok && len(arr) > 0 {
				if k0, ok := arr[0].(map[string]any); ok {
					if keys, ok := k0["keys"].(map[string]any); ok {
						for amt, kv := range keys {
							var n uint64
							fmt.Sscan(amt, &n)
							v.Keys[n], _ = kv.(string)
						}
					}
				}
			}
		}
		cur[id] = v
	}
	if nActive != 1 {
		W.Book.Violate("C09.active_count", why, "%d active keysets after %s", nActive, why)
	}
	// GET /v1/keys must show exactly the active keyset
	var ar *Resp
	m.rc.Quietly(func() { ar = a.Get(mint, "/v1/keys") })
	if ar.OK() {
		if arr, ok := ar.Body["keysets"].([]any); ok {
			if len(arr) != 1 {
				W.Book.Violate("C09.active_keys", why, "GET /v1/keys lists %d keysets", len(arr))
			} else if k0, ok := arr[0].(map[string]any); ok {
				// after a runtime rotation the server's 1-day cache entry for /v1/keys is only dropped
				// by MintServer.Start's 30 s cleanup goroutine, which the simulation does not run:
				// compare only when the server object is fresh (after a load)
				if id, _ := k0["id"].(string); id != activeID && nActive == 1 && !m.keysCacheStale {
					W.Book.Violate("C09.active_keys", why, "GET /v1/keys shows keyset %s, the active keyset is %s", id, activeID)
				}
			}
		}
	}
	// superset of the previous view with identical ids, keys and fees
	for id, pv := range prev {
		cv, ok := cur[id]
		if !ok {
			W.Book.Violate("C09.keyset_vanished", why, "keyset %s no longer published after %s", id, why)
			continue
		}
		if cv.Fee != pv.Fee {
			W.Book.Violate("C09.fee_changed", why, "keyset %s fee changed %d -> %d after %s", id, pv.Fee, cv.Fee, why)
		}
		if keysStr(cv.Keys) != keysStr(pv.Keys) {
			W.Book.Violate("C09.keys_changed", why, "keyset %s public keys changed after %s", id, why)
		}
	}
	// independent derivations
	der := W.DeriveKeysets(mint)
	for id, cv := range cur {
		if len(cv.Keys) != 60 {
			W.Book.Violate("C09.key_count", why, "keyset %s publishes %d keys", id, len(cv.Keys))
			continue
		}
		for i := 0; i < 60; i++ {
			if _, ok := cv.Keys[uint64(1)<<uint(i)]; !ok {
				W.Book.Violate("C09.key_amounts", why, "keyset %s has no key for 2^%d", id, i)
			}
		}
		if want, err := hKeysetID(cv.Keys); err != nil || want != id {
			W.Book.Violate("C09.id_derivation", why, "keyset id %s is not the NUT-02 derivation of its keys (%s)", id, want)
		}
		d := der[id]
		if d == nil {
			W.Book.Violate("C09.not_stored", why, "published keyset %s is not in the mint's storage", id)
			continue
		}
		if keysStr(d.Pub) != keysStr(cv.Keys) {
			W.Book.Violate("C09.key_derivation", why, "keyset %s keys are not m/0'/0'/%d'/i' of the stored seed", id, d.Idx)
		}
		if uint64(d.Fee) != cv.Fee {
			W.Book.Violate("C09.fee_mismatch", why, "keyset %s publishes fee %d, stored %d", id, cv.Fee, d.Fee)
		}
		// what the operator configured
		if bk := W.Book.Mint(mint).Keysets[id]; bk != nil && bk.FeeOK && bk.Fee != cv.Fee {
			W.Book.Violate("C09.fee_config", why, "keyset %s publishes fee %d, operator configured %d", id, cv.Fee, bk.Fee)
		}
		m.rc.S.Probe("c09_keyset_audited")
	}
	if len(cur) >= 3 {
		m.rc.S.Probe("c09_three_generations")
	}
	return cur
}

func keysStr(k map[uint64]string) string {
	amts := make([]uint64, 0, len(k))
	for a := range k {
		amts = append(amts, a)
	}
	sort.Slice(amts, func(i, j int) bool { return amts[i] < amts[j] })
	var b strings.Builder
	for _, a := range amts {
		fmt.Fprintf(&b, "%d=%s,", a, strings.ToLower(k[a]))
	}
	return b.String()
}

// StepWrongKeysetOutputs: requests naming a non-active or unknown keyset must be refused and never signed.
func (m *MW) StepWrongKeysetOutputs() {
	mint := m.pickMint()
	mb := m.W.Book.Mint(mint)
	var inactive []string
	for id, k := range mb.Keysets {
		if !k.Active {
			inactive = append(inactive, id)
		}
	}
	sort.Strings(inactive)
	target := "00ffffffffffffff"
	kind := "unknown"
	if len(inactive) > 0 && m.T.Chance("wk.inactive", 3, 4) {
		target = inactive[m.T.Choose("wk.which", len(inactive))]
		kind = "inactive"
	}
	ins := m.pickProofs(mint, 1)
	if ins == nil {
		m.StepFund()
		return
	}
	viaMint := m.T.Chance("wk.viamint", 1, 3)
	mixed := m.T.Chance("wk.mixed", 1, 2)
	m.rc.Op("outputs-on-" + kind)
	ks := m.W.ActiveKeyset(mint)
	fee := m.feeFor(mint, ins)
	if SumH(ins) <= fee {
		return
	}
	m.rc.S.BeginEpisode()
	m.rc.S.Run1(m.name("wk"), m.W.Ext, func() {
		amt := SumH(ins) - fee
		var outs []*HOutput
		if mixed && amt > 1 {
			outs = append(outs, m.W.NewOutputs(Split(amt-1), ks.ID)...)
			outs = append(outs, m.W.NewOutput(1, target, ""))
		} else {
			outs = m.W.NewOutputs(Split(amt), target)
		}
		var r *Resp
		if viaMint {
			q, _ := m.Atk.ReqMintQuote(mint, amt, false)
			if q == nil {
				return
			}
			m.W.LN.PayExternal(q.Hash)
			_, r = m.Atk.Mint(mint, q, outs, "")
			if !r.OK() {
				// the paid quote must remain mintable on the active keyset
				_, r2 := m.User.Mint(mint, q, m.W.NewOutputs(Split(amt), ks.ID), "")
				if !r2.OK() {
					m.W.Book.Violate("C06.quote_stranded", "wrongkeyset", "paid quote not mintable after refused %s-keyset request: %v", kind, r2)
				}
			}
		} else {
			_, r = m.Atk.Swap(mint, ins, outs)
		}
		m.rc.S.Probe("c09_wrong_keyset_request_" + kind)
		if r.OK() {
			m.W.Book.Violate("C09.signed_non_active", kind, "request with outputs on %s keyset %s was signed", kind, target)
			if !viaMint {
				m.markSpent(mint, ins)
			}
		}
	})
	if !viaMint {
		m.checkStillSpendableMaybe(mint, ins)
	}
}

func runC09(rc *RunCtx) {
	T := rc.T
	fee0 := c09Fees[T.Choose("cfg.fee", len(c09Fees))]
	rc.NewMintWorld(LNConfig{FeePolicy: T.Choose("cfg.feepol", 3)}, MintOpts{Fee: uint(fee0)})
	rc.W.CheckGenuine = true
	rc.W.Book.TrackActive = true
	m := NewMW(rc, "A")
	m.Strict = true
	m.Fees = map[string][]uint64{"A": c09Fees}
	rc.Quietly(func() { m.User.Fund("A", 255) })
	view := m.KeysetAudit("A", nil, "first load")
	gens, hasGens := rc.Spec.Params["gens"]
	pat := rc.P("pat", -1)
	if pat < 0 {
		pat = T.Choose("cfg.pat", 4)
	}
	rotations := 0
	rotate := func(i int) {
		runtime := false
		switch pat {
		case 0:
			runtime = false
		case 1:
			runtime = true
		case 2:
			runtime = i%2 == 0
		default:
			runtime = T.Chance("rot.runtime", 1, 2)
		}
		r0 := rc.S.Seq()
		if T.Chance("rot.interrupted", 1, 5) {
			// a storage error at one of the rotation's storage calls; the operator then restarts the mint
			fee := c09Fees[T.Choose("rot.ifee", len(c09Fees))]
			k := 1 + T.Choose("rot.ik", 3)
			rc.Op(fmt.Sprintf("rotate-interrupted(fee=%d, db_error@%d)+restart", fee, k))
			node := rc.W.Mints["A"]
			rc.S.BeginEpisode(&FaultPlan{Node: "A", Kind: "db_error", SeamKind: "db", Pos: k})
			rc.S.Run1(m.name("irot"), node.Inc, func() { node.M.RotateKeyset(uint(fee)) })
			if T.Chance("rot.retry", 1, 2) {
				// the operator retries the rotation on the running mint, with another fee, before
				// restarting: whatever the retry does, what the mint publishes afterwards must
				// survive the restart unchanged
				fee2 := c09Fees[T.Choose("rot.rfee", len(c09Fees))]
				var rerr error
				rc.S.BeginEpisode()
				rc.S.Run1(m.name("irot.retry"), node.Inc, func() { _, rerr = node.M.RotateKeyset(uint(fee2)) })
				rc.S.Probe("c09_rotation_retried")
				if rerr == nil {
					rc.S.Probe("c09_rotation_retry_succeeded")
					fee = fee2
					m.keysCacheStale = true // GET /v1/keys is cached for 30 s across a runtime rotation
				}
				rc.Quietly(func() { rc.W.RefreshKeysets("A", fee) })
				rc.W.Book.NoteRotation("A", r0)
				view = m.KeysetAudit("A", view, "retried rotation")
			}
			rc.Quietly(func() {
				if err := rc.W.RestartMint("A", nil); err != nil {
					rc.W.Book.Violate("C09.load_fails", "interrupted rotation", "mint does not load after an interrupted rotation: %v", err)
					return
				}
				rc.W.RefreshKeysets("A", fee)
			})
			m.keysCacheStale = false
			rc.S.Probe("c09_interrupted_rotation")
			rc.W.Book.NoteRotation("A", r0)
			rotations++
			view = m.KeysetAudit("A", view, "interrupted rotation")
			rc.Quietly(func() { m.User.Fund("A", 31+uint64(rotations)) })
			return
		}
		if runtime {
			// traffic concurrent with the runtime rotation
			m.StepRotateRuntimeConcurrent()
			m.keysCacheStale = true
		} else {
			m.keysCacheStale = false
			m.forceRotate = true
			m.StepRestart(true)
			m.forceRotate = false
		}
		rc.W.Book.NoteRotation("A", r0)
		rotations++
		view = m.KeysetAudit("A", view, fmt.Sprintf("rotation %d", rotations))
		rc.Quietly(func() { m.User.Fund("A", 31+uint64(rotations)) })
	}
	// weights:       fund swap melt resolve replay dup race checkstate restore restart clock adv internal rotate
	weights := []int{2, 6, 2, 0, 0, 0, 0, 0, 0, 2, 1, 0, 1, 0}
	rc.StepLoop(3, 14, func(i int) {
		m.step = i
		doRotate := T.Chance("rotate", 1, 4)
		if hasGens {
			doRotate = rotations < gens-1 && i%2 == 0
		}
		if doRotate && rotations < 4 {
			rotate(i)
			return
		}
		switch T.Pick("c09.kind", 6, 3, 1) {
		case 0:
			k := T.Pick("step.kind", weights...)
			m.Step(k, false)
			if mwKinds[k] == "restart" {
				m.keysCacheStale = false
				view = m.KeysetAudit("A", view, "restart")
			}
		case 1:
			m.StepWrongKeysetOutputs()
		case 2:
			m.StepClock()
		}
	})
	view = m.KeysetAudit("A", view, "end")
	// every older keyset's proofs are still spendable: the finale drain swaps every proof individually
	m.Finale()
	rc.Nontrivial = rotations > 0
}
