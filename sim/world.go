package sim

import (
	"fmt"
	"net/http"
	"os"
	"path/filepath"
	"sort"
	"time"

	"github.com/elnosh/gonuts/mint"
	"github.com/elnosh/gonuts/mint/storage"
	"github.com/elnosh/gonuts/wallet"
	wstorage "github.com/elnosh/gonuts/wallet/storage"
)

func sortStrings(s []string) { sort.Strings(s) }

// MintNode is one simulated mint process with its data directory.
type MintNode struct {
	Name    string
	Dir     string
	Epoch   int
	Inc     *Inc
	M       *mint.Mint
	Srv     *mint.MintServer
	Handler http.Handler
	Inner   storage.MintDB // unwrapped storage, for oracles only
	Cfg     mint.Config
	URL     string
}

type WalletNode struct {
	Name     string
	Dir      string
	Epoch    int
	Inc      *Inc
	W        *wallet.Wallet
	Inner    wstorage.WalletDB
	Mint     string // default mint URL
	Rec      *WalletRec
	Mnemonic string
}

type World struct {
	// RespellPct: percentage of plain outputs sent in an unusual spelling of their point (upper case, uncompressed)
	RespellPct int
	S          *Sim
	Dir        string
	LN         *LNNet
	Net        *Net
	Mints      map[string]*MintNode
	Wallets    map[string]*WalletNode
	SeamLog    []SeamCall
	Ext        *Inc // external actors (attacker, users at mint level)
	Book       *Book

	Outputs   map[string]*HOutput // every output any harness actor ever created, by B_
	OutOrder  []string
	AllProofs []*HProof
	LockRing  *KeyRing // keys of the spending conditions used by mint-level honest users
	// LastWalletOp: the wallet-level operation in progress (attribution of wire-level findings)
	LastWalletOp string

	yIndex   map[string]string
	yIndexed int
	keyCache map[string]*derivedKeyset
	oracleKS map[string]map[string]*derivedKeyset
	// CheckGenuine: the Book verifies every accepted input against the key oracle (C04)
	CheckGenuine bool
	// ShapeCheck: every exchange is validated against the NUT response shapes (C20)
	ShapeCheck bool
}

func NewWorld(s *Sim, dir string, ln LNConfig) *World {
	w := &World{S: s, Dir: dir, Mints: map[string]*MintNode{}, Wallets: map[string]*WalletNode{}, Outputs: map[string]*HOutput{}}
	w.LN = NewLNNet(s, ln)
	w.Net = NewNet(s, w)
	w.Ext = &Inc{Node: "ext", Alive: true}
	w.Book = NewBook(w)
	http.DefaultClient.Transport = w.Net
	http.DefaultTransport = w.Net
	s.OnCrash = w.onCrash
	return w
}

func (w *World) onCrash(inc *Inc) {
	for _, m := range w.Mints {
		if m.Inc == inc {
			// process death: the OS closes the database file; only committed state survives
			m.M.Shutdown()
			m.M = nil
			m.Handler = nil
			return
		}
	}
	for _, wn := range w.Wallets {
		if wn.Inc == inc {
			wn.Inner.Close()
			wn.W = nil
			return
		}
	}
}

// StartMint loads (or reloads) the mint on its data directory. Runs in the driver goroutine.
func (w *World) StartMint(name string, cfg mint.Config) (*MintNode, error) {
	n := w.Mints[name]
	if n == nil {
		n = &MintNode{Name: name, Dir: filepath.Join(w.Dir, "mint-"+name), URL: "http://" + name}
		w.Mints[name] = n
	}
	if n.Inc != nil && n.Inc.Alive {
		harnessf("mint %s already running", name)
	}
	n.Epoch++
	inc := &Inc{Node: name, Epoch: n.Epoch, Alive: true}
	cfg.MintPath = n.Dir
	cfg.LogLevel = mint.Disable
	cfg.LightningClient = w.LN.Client(name, inc)
	var m *mint.Mint
	var err error
	func() {
		defer func() {
			if r := recover(); r != nil {
				err = fmt.Errorf("LoadMint panicked: %v", r)
			}
		}()
		m, err = mint.LoadMint(cfg)
	}()
	if err != nil {
		n.Epoch--
		return n, err
	}
	n.Cfg = cfg
	n.Inc = inc
	n.M = m
	n.Inner = m.VerifDB()
	m.VerifWrapDB(func(db storage.MintDB) storage.MintDB {
		return &simMintDB{s: w.S, inc: inc, inner: db, log: &w.SeamLog}
	})
	n.Srv = mint.SetupMintServer(m, mint.ServerConfig{Port: 0})
	n.Handler = n.Srv.VerifHandler()
	w.S.Log("node", "", fmt.Sprintf("mint %s up epoch %d", name, n.Epoch))
	return n, nil
}

// StopMint is a clean shutdown (operator restart).
func (w *World) StopMint(name string) {
	n := w.Mints[name]
	if n == nil || n.Inc == nil || !n.Inc.Alive {
		return
	}
	// a clean stop still terminates in-flight background goroutines
	w.S.CrashInc(n.Inc)
	w.S.Log("node", "", "mint "+name+" stopped")
}

func (w *World) RestartMint(name string, mod func(*mint.Config)) error {
	n := w.Mints[name]
	w.StopMint(name)
	cfg := n.Cfg
	cfg.RotateKeyset = false
	if mod != nil {
		mod(&cfg)
	}
	_, err := w.StartMint(name, cfg)
	w.S.Stats["restart"]++
	return err
}

func (w *World) Close() {
	for _, m := range w.Mints {
		if m.Inc != nil && m.Inc.Alive {
			w.S.CrashInc(m.Inc)
		}
	}
	for _, wn := range w.Wallets {
		if wn.Inc != nil && wn.Inc.Alive {
			w.S.CrashInc(wn.Inc)
		}
	}
	os.RemoveAll(w.Dir)
}

// SimTimeCovered: seconds of simulated time since start of the bubble.
func SimEpoch() time.Time { return time.Date(2000, 1, 1, 0, 0, 0, 0, time.UTC) }
