package sim

import (
	"bufio"
	"encoding/json"
	"fmt"
	"os"
	"strconv"
	"testing"
	"time"
)

func envInt(name string, def int) int {
	if v := os.Getenv(name); v != "" {
		n, err := strconv.Atoi(v)
		if err == nil {
			return n
		}
	}
	return def
}

// TestWorker executes a batch of runs described by environment variables and
// writes one JSON line per run to VERIF_OUT.
//
//	VERIF_PROP       property id
//	VERIF_JOBS       file with one RunSpec JSON per line (core scenarios / replays), or
//	VERIF_FROM/TO    run index range for seeded random runs, VERIF_SEED base seed
//	VERIF_DEADLINE   unix time (real) after which no new run is started
//	VERIF_MAXRUNS    recycle bound
func TestWorker(t *testing.T) {
	prop := os.Getenv("VERIF_PROP")
	if prop == "" {
		t.Skip("no VERIF_PROP")
	}
	outPath := os.Getenv("VERIF_OUT")
	out := os.Stdout
	if outPath != "" {
		f, err := os.OpenFile(outPath, os.O_CREATE|os.O_WRONLY|os.O_APPEND, 0644)
		if err != nil {
			t.Fatal(err)
		}
		defer f.Close()
		out = f
	}
	bw := bufio.NewWriter(out)
	defer bw.Flush()
	emit := func(r RunResult) {
		b, _ := json.Marshal(r)
		bw.Write(b)
		bw.WriteByte('\n')
		bw.Flush()
	}
	deadline := int64(envInt("VERIF_DEADLINE", 0))
	expired := func() bool { return deadline > 0 && time.Now().Unix() >= deadline }
	minimise := os.Getenv("VERIF_NOMIN") == ""

	handle := func(spec RunSpec) {
		res := Exec(t, spec)
		if len(res.Fatal) > 0 && minimise && res.HarnessErr == "" {
			res = Minimise(t, res)
		}
		emit(res)
	}

	if jobs := os.Getenv("VERIF_JOBS"); jobs != "" {
		f, err := os.Open(jobs)
		if err != nil {
			t.Fatal(err)
		}
		defer f.Close()
		sc := bufio.NewScanner(f)
		sc.Buffer(make([]byte, 1<<20), 1<<26)
		from, to := envInt("VERIF_FROM", 0), envInt("VERIF_TO", 1<<30)
		i := 0
		for sc.Scan() {
			if i >= from && i < to {
				var spec RunSpec
				if err := json.Unmarshal(sc.Bytes(), &spec); err != nil {
					fmt.Fprintln(os.Stderr, "bad job:", err)
					os.Exit(2)
				}
				if expired() {
					break
				}
				handle(spec)
			}
			i++
		}
		return
	}
	base := uint64(envInt("VERIF_SEED", 1))
	from, to := envInt("VERIF_FROM", 0), envInt("VERIF_TO", 0)
	stride := envInt("VERIF_STRIDE", 1)
	for i := from; i < to; i += stride {
		if expired() {
			break
		}
		handle(RunSpec{Prop: prop, Profile: "random", Seed: SeedFor(base, prop, i), Index: i, Trace: os.Getenv("VERIF_TRACEALL") != ""})
	}
}

// TestListCore prints the core scenarios of a property as JSON lines.
func TestListCore(t *testing.T) {
	prop := os.Getenv("VERIF_PROP")
	if prop == "" {
		t.Skip()
	}
	p := Profiles[prop]
	if p == nil {
		fmt.Fprintln(os.Stderr, "unknown property", prop)
		os.Exit(2)
	}
	tier := os.Getenv("VERIF_TIER")
	if tier == "" {
		tier = "quick"
	}
	f, err := os.Create(os.Getenv("VERIF_OUT"))
	if err != nil {
		t.Fatal(err)
	}
	defer f.Close()
	if p.Core == nil {
		return
	}
	for i, s := range p.Core(tier) {
		s.Prop = prop
		s.Index = i
		if s.Seed == 0 {
			s.Seed = SeedFor(uint64(envInt("VERIF_SEED", 1)), prop+"/core/"+s.Profile, i)
		}
		b, _ := json.Marshal(s)
		f.Write(b)
		f.Write([]byte("\n"))
	}
}
