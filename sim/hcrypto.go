package sim

import (
	"crypto/hmac"
	"crypto/sha256"
	"crypto/sha512"
	"encoding/binary"
	"encoding/hex"
	"errors"
	"fmt"
	"sort"

	"github.com/decred/dcrd/dcrec/secp256k1/v4"
)

// Independent implementations written from NUT-00/02/12/13 and BIP32, used only as
// oracles. The elliptic-curve arithmetic (dcrd secp256k1) is shared with gonuts and trusted.

type Point = secp256k1.JacobianPoint
type Scalar = secp256k1.ModNScalar

func parsePoint(hexstr string) (*secp256k1.PublicKey, error) {
	b, err := hex.DecodeString(hexstr)
	if err != nil {
		return nil, err
	}
	return secp256k1.ParsePubKey(b)
}

func pointHex(p *secp256k1.PublicKey) string { return hex.EncodeToString(p.SerializeCompressed()) }

func jac(p *secp256k1.PublicKey) Point {
	var j Point
	p.AsJacobian(&j)
	return j
}

func fromJac(j *Point) *secp256k1.PublicKey {
	j.ToAffine()
	return secp256k1.NewPublicKey(&j.X, &j.Y)
}

// hH2C: NUT-00 hash_to_curve.
func hH2C(msg []byte) *secp256k1.PublicKey {
	h0 := sha256.Sum256(append([]byte("Secp256k1_HashToCurve_Cashu_"), msg...))
	for ctr := uint32(0); ctr < 1<<16; ctr++ {
		var c [4]byte
		binary.LittleEndian.PutUint32(c[:], ctr)
		h := sha256.Sum256(append(h0[:], c[:]...))
		pk, err := secp256k1.ParsePubKey(append([]byte{0x02}, h[:]...))
		if err == nil {
			return pk
		}
	}
	panic("h2c: no point")
}

func hY(secret string) string { return pointHex(hH2C([]byte(secret))) }

func scalarFromBytes(b []byte) *Scalar {
	var s Scalar
	s.SetByteSlice(b)
	return &s
}

func mulG(k *Scalar) *secp256k1.PublicKey {
	var r Point
	secp256k1.ScalarBaseMultNonConst(k, &r)
	return fromJac(&r)
}

func mulP(k *Scalar, p *secp256k1.PublicKey) (*secp256k1.PublicKey, bool) {
	j := jac(p)
	var r Point
	secp256k1.ScalarMultNonConst(k, &j, &r)
	if (r.X.IsZero() && r.Y.IsZero()) || r.Z.IsZero() {
		return nil, false
	}
	return fromJac(&r), true
}

func addP(a, b *secp256k1.PublicKey) (*secp256k1.PublicKey, bool) {
	ja, jb := jac(a), jac(b)
	var r Point
	secp256k1.AddNonConst(&ja, &jb, &r)
	if (r.X.IsZero() && r.Y.IsZero()) || r.Z.IsZero() {
		return nil, false
	}
	return fromJac(&r), true
}

func negS(k *Scalar) *Scalar {
	var n Scalar
	n.NegateVal(k)
	return &n
}

// hBlind: B_ = Y + r*G
func hBlind(secret string, r *Scalar) (string, error) {
	b, ok := addP(hH2C([]byte(secret)), mulG(r))
	if !ok {
		return "", errors.New("blind: infinity")
	}
	return pointHex(b), nil
}

// hUnblind: C = C_ - r*K
func hUnblind(C_hex string, r *Scalar, K *secp256k1.PublicKey) (string, error) {
	C_, err := parsePoint(C_hex)
	if err != nil {
		return "", err
	}
	rK, ok := mulP(negS(r), K)
	if !ok {
		return "", errors.New("unblind: infinity")
	}
	c, ok := addP(C_, rK)
	if !ok {
		return "", errors.New("unblind: infinity")
	}
	return pointHex(c), nil
}

// hVerifyDLEQ: NUT-12, R1 = sG - eA, R2 = sB' - eC', e == H(R1,R2,A,C')
func hVerifyDLEQ(eHex, sHex string, A *secp256k1.PublicKey, B_hex, C_hex string) bool {
	eb, err1 := hex.DecodeString(eHex)
	sb, err2 := hex.DecodeString(sHex)
	if err1 != nil || err2 != nil || len(eb) != 32 || len(sb) != 32 {
		return false
	}
	B_, err := parsePoint(B_hex)
	if err != nil {
		return false
	}
	C_, err := parsePoint(C_hex)
	if err != nil {
		return false
	}
	e, s := scalarFromBytes(eb), scalarFromBytes(sb)
	if s.IsZero() {
		return false
	}
	ne := negS(e)
	eA, ok1 := mulP(ne, A)
	eC, ok2 := mulP(ne, C_)
	sB, ok3 := mulP(s, B_)
	if !ok1 || !ok2 || !ok3 {
		return false
	}
	R1, ok1 := addP(mulG(s), eA)
	R2, ok2 := addP(sB, eC)
	if !ok1 || !ok2 {
		return false
	}
	var cat string
	for _, p := range []*secp256k1.PublicKey{R1, R2, A, C_} {
		cat += hex.EncodeToString(p.SerializeUncompressed())
	}
	h := sha256.Sum256([]byte(cat))
	return hex.EncodeToString(h[:]) == hex.EncodeToString(eb)
}

// ---- BIP32 (private derivation only) ----

type xkey struct {
	k     [32]byte
	chain [32]byte
}

func bip32Master(seed []byte) xkey {
	m := hmac.New(sha512.New, []byte("Bitcoin seed"))
	m.Write(seed)
	I := m.Sum(nil)
	var x xkey
	copy(x.k[:], I[:32])
	copy(x.chain[:], I[32:])
	return x
}

const hardened = uint32(0x80000000)

func (x xkey) child(i uint32) xkey {
	var data []byte
	if i >= hardened {
		data = append([]byte{0}, x.k[:]...)
	} else {
		data = mulG(scalarFromBytes(x.k[:])).SerializeCompressed()
	}
	var ib [4]byte
	binary.BigEndian.PutUint32(ib[:], i)
	data = append(data, ib[:]...)
	m := hmac.New(sha512.New, x.chain[:])
	m.Write(data)
	I := m.Sum(nil)
	var il Scalar
	if il.SetByteSlice(I[:32]) {
		panic("bip32: IL >= n")
	}
	il.Add(scalarFromBytes(x.k[:]))
	if il.IsZero() {
		panic("bip32: zero key")
	}
	var c xkey
	b := il.Bytes()
	copy(c.k[:], b[:])
	copy(c.chain[:], I[32:])
	return c
}

func (x xkey) path(is ...uint32) xkey {
	for _, i := range is {
		x = x.child(i)
	}
	return x
}

// hMintKey: NUT-02 / gonuts layout m/0'/0'/idx'/i' -> private scalar of amount 2^i.
func hMintKey(seed []byte, idx uint32, i int) *Scalar {
	k := bip32Master(seed).path(hardened, hardened, hardened+idx, hardened+uint32(i))
	return scalarFromBytes(k.k[:])
}

// hKeysetID: NUT-02 version 00: "00" + hex(sha256(concat of compressed keys sorted by amount))[:14]
func hKeysetID(keys map[uint64]string) (string, error) {
	amts := make([]uint64, 0, len(keys))
	for a := range keys {
		amts = append(amts, a)
	}
	sort.Slice(amts, func(i, j int) bool { return amts[i] < amts[j] })
	var cat []byte
	for _, a := range amts {
		b, err := hex.DecodeString(keys[a])
		if err != nil || len(b) != 33 {
			return "", fmt.Errorf("bad key for %d", a)
		}
		cat = append(cat, b...)
	}
	h := sha256.Sum256(cat)
	return "00" + hex.EncodeToString(h[:])[:14], nil
}

// hNut13: secret and blinding factor for (seed, keyset id, counter):
// m/129372'/0'/(int(id) mod 2^31-1)'/counter'/{0,1}
func hNut13(seed []byte, keysetID string, counter uint32) (secret string, r *Scalar, err error) {
	idb, err := hex.DecodeString(keysetID)
	if err != nil || len(idb) != 8 {
		return "", nil, fmt.Errorf("bad keyset id")
	}
	kid := uint32(binary.BigEndian.Uint64(idb) % (1<<31 - 1))
	base := bip32Master(seed).path(hardened+129372, hardened, hardened+kid, hardened+counter)
	sk := base.child(0)
	rk := base.child(1)
	return hex.EncodeToString(sk.k[:]), scalarFromBytes(rk.k[:]), nil
}

func scalarHex(s *Scalar) string {
	b := s.Bytes()
	return hex.EncodeToString(b[:])
}
