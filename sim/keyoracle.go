package sim

import (
	"fmt"
	"sort"
)

// Key oracle (O-keys): every mint key re-derived by the harness's own BIP32 code from
// the seed and derivation indices the mint stored (read through the unwrapped storage).

type derivedKeyset struct {
	ID   string
	Idx  uint32
	Fee  uint
	Priv map[uint64]*Scalar
	Pub  map[uint64]string
}

func (w *World) DeriveKeysets(mint string) map[string]*derivedKeyset {
	node := w.Mints[mint]
	seed, err := node.Inner.GetSeed()
	if err != nil {
		harnessf("oracle: GetSeed: %v", err)
	}
	dbks, err := node.Inner.GetKeysets()
	if err != nil {
		harnessf("oracle: GetKeysets: %v", err)
	}
	if w.keyCache == nil {
		w.keyCache = map[string]*derivedKeyset{}
	}
	out := map[string]*derivedKeyset{}
	for _, k := range dbks {
		ck := fmt.Sprintf("%s|%x|%d", mint, seed, k.DerivationPathIdx)
		d := w.keyCache[ck]
		if d == nil {
			d = &derivedKeyset{Idx: k.DerivationPathIdx, Priv: map[uint64]*Scalar{}, Pub: map[uint64]string{}}
			for i := 0; i < 60; i++ {
				amt := uint64(1) << uint(i)
				s := hMintKey(seed, k.DerivationPathIdx, i)
				d.Priv[amt] = s
				d.Pub[amt] = pointHex(mulG(s))
			}
			d.ID, _ = hKeysetID(d.Pub)
			w.keyCache[ck] = d
		}
		cp := *d
		cp.Fee = k.InputFeePpk
		// indexed by the id the *mint* uses; C09 compares it with the derived id
		out[k.Id] = &cp
	}
	return out
}

// GenuineProof: C == k(id, amount) * hash_to_curve(secret) for the harness-derived key.
func (w *World) GenuineProof(mint string, p JProof) (bool, string) {
	ks := w.oracleKeysets(mint)
	d := ks[p.ID]
	if d == nil {
		return false, "unknown keyset " + p.ID
	}
	k := d.Priv[p.Amount]
	if k == nil {
		return false, fmt.Sprintf("amount %d is not a key of keyset %s", p.Amount, p.ID)
	}
	if len(p.Secret) > 512 {
		return false, "secret longer than 512 bytes"
	}
	C, err := parsePoint(p.C)
	if err != nil {
		return false, "malformed C"
	}
	want, ok := mulP(k, hH2C([]byte(p.Secret)))
	if !ok || pointHex(want) != pointHex(C) {
		return false, "C is not k*hash_to_curve(secret)"
	}
	return true, ""
}

func (w *World) oracleKeysets(mint string) map[string]*derivedKeyset {
	if w.oracleKS == nil {
		w.oracleKS = map[string]map[string]*derivedKeyset{}
	}
	ks := w.oracleKS[mint]
	mb := w.Book.Mint(mint)
	if ks == nil || len(ks) != len(mb.Keysets) {
		ks = w.DeriveKeysets(mint)
		w.oracleKS[mint] = ks
	}
	return ks
}

func sortedIDs(m map[string]*derivedKeyset) []string {
	ids := make([]string, 0, len(m))
	for id := range m {
		ids = append(ids, id)
	}
	sort.Strings(ids)
	return ids
}
