package sim

import (
	"crypto/sha256"
	"encoding/hex"
	"encoding/json"
	"fmt"
	"sort"
	"strings"

	"github.com/btcsuite/btcd/btcec/v2/schnorr"
	decodepay "github.com/nbd-wtf/ln-decodepay"
)

// Book is the reference ledger (O-ledger, DESIGN.md §5). It learns only from what
// crossed the transport (request bytes and the response bytes the mint produced)
// and from the Lightning model; it never reads the mint's tables.

type Violation struct {
	Rule string `json:"rule"`
	Msg  string `json:"msg"`
	Seq  int    `json:"seq"`
	FP   string `json:"fp"` // fingerprint detail used for known-finding matching
}

type JProof struct {
	Amount  uint64         `json:"amount"`
	ID      string         `json:"id"`
	Secret  string         `json:"secret"`
	C       string         `json:"C"`
	Witness string         `json:"witness"`
	DLEQ    map[string]any `json:"dleq"`
}

type JOutput struct {
	Amount  uint64 `json:"amount"`
	ID      string `json:"id"`
	B_      string `json:"B_"`
	Witness string `json:"witness"`
}

type JSig struct {
	Amount uint64 `json:"amount"`
	ID     string `json:"id"`
	C_     string `json:"C_"`
	DLEQ   *struct {
		E string `json:"e"`
		S string `json:"s"`
	} `json:"dleq"`
}

type SigRec struct {
	B_, C_, ID string
	Amount     uint64
	E, S       string
	Seq        int
	Via        string
	Quote      string
}

type ConsRec struct {
	Kind string // swap | melt
	Key  string
	Seq  int
}

type SecretRec struct {
	Secret  string
	Amount  uint64
	ID      string
	Cons    []ConsRec
	Witness string // witness of the first consumption
}

type MQRec struct {
	ID, Request, Hash, Pubkey string
	Amount                    uint64
	Issued                    uint64 // sum over distinct B_ signed for this quote
	IssueSeqs                 []int
	Internal                  int // internal settlements (payments by melt)
	viaRestore                bool
	Seq                       int
}

type MeltAttempt struct {
	Obs     *HTTPObs
	Quote   string
	Inputs  []JProof
	Handler string
	Paid    bool // a Lightning payment attributable to this attempt was made, or it returned PAID
	PaySeq  int  // event sequence number of that pay call (0: none, e.g. internal settlement)
	State   string
}

type LQRec struct {
	ID, Request, Hash string
	Amount, Reserve   uint64
	Attempts          []*MeltAttempt
	LastState         string
	Preimage          string
	Mpp               bool
	Seq               int
}

type KeysetInfo struct {
	ActiveFrom  int // generous window of event sequence numbers in which the keyset may have been active
	ActiveUntil int // 0 = still active
	ID          string
	Fee         uint64 // ppk, harness knowledge (what the operator configured)
	FeeOK       bool
	Active      bool
	Keys        map[uint64]string
	seenActive  bool
}

type MintBook struct {
	Name     string
	Sigs     map[string]*SigRec
	SigSeq   []string
	Secrets  map[string]*SecretRec
	MQ       map[string]*MQRec
	MQOrder  []string
	LQ       map[string]*LQRec
	LQOrder  []string
	Keysets  map[string]*KeysetInfo
	MQByHash map[string]string
	// EffMelted: secrets of melt requests that were answered with an error but had settled a mint quote
	// internally and kept their inputs locked: the melt took effect, the inputs are gone for good
	EffMelted map[string]string
	OutQuote  map[string]string // B_ -> mint quote it was submitted for in a refused mint request
}

type Book struct {
	w          *World
	M          map[string]*MintBook
	Violations []Violation
	seen       map[string]bool
	// TrackActive: signatures must be on a keyset that was active while the request ran (C09)
	TrackActive bool
}

func NewBook(w *World) *Book { return &Book{w: w, M: map[string]*MintBook{}, seen: map[string]bool{}} }

func (b *Book) Mint(name string) *MintBook {
	m := b.M[name]
	if m == nil {
		m = &MintBook{Name: name, Sigs: map[string]*SigRec{}, Secrets: map[string]*SecretRec{}, MQ: map[string]*MQRec{},
			LQ: map[string]*LQRec{}, Keysets: map[string]*KeysetInfo{}, MQByHash: map[string]string{}, OutQuote: map[string]string{}}
		b.M[name] = m
	}
	return m
}

func (b *Book) Violate(rule, fp, format string, a ...any) {
	msg := fmt.Sprintf(format, a...)
	key := rule + "|" + fp + "|" + msg
	if b.seen[key] {
		return
	}
	b.seen[key] = true
	b.Violations = append(b.Violations, Violation{Rule: rule, Msg: msg, Seq: b.w.S.Seq(), FP: fp})
	b.w.S.Log("violation", "", rule+": "+msg)
}

func (m *MintBook) fee(inputs []JProof) (uint64, bool) {
	var ppk uint64
	for _, p := range inputs {
		k := m.Keysets[p.ID]
		if k == nil || !k.FeeOK {
			return 0, false
		}
		ppk += k.Fee
	}
	return (ppk + 999) / 1000, true
}

func sumProofs(ps []JProof) (uint64, bool) {
	var s uint64
	for _, p := range ps {
		if s+p.Amount < s {
			return 0, false
		}
		s += p.Amount
	}
	return s, true
}

func outputsKey(outs []JOutput) string {
	ks := make([]string, len(outs))
	for i, o := range outs {
		ks[i] = o.B_
	}
	sort.Strings(ks)
	h := sha256.Sum256([]byte(strings.Join(ks, ",")))
	return hex.EncodeToString(h[:8])
}

// Ingest is called by the transport for every completed exchange (also when the
// response was subsequently lost on the way to the client).
func (b *Book) Ingest(o *HTTPObs) {
	if b.w.ShapeCheck {
		b.w.S.Stats["c20_shape_checked"]++
		for _, msg := range CheckShape(o) {
			pth := o.Path
			if i := strings.LastIndexByte(pth, '/'); i > 12 {
				pth = pth[:i]
			}
			b.Violate("C20.shape", o.Method+" "+pth, "%s %s -> %d: %s", o.Method, cut(o.Path, 40), o.Status, msg)
		}
	}
	if !o.Executed {
		// the request may still have had effects (crash mid-way): remember melt attempts
		if o.Method == "POST" && strings.HasPrefix(o.Path, "/v1/melt/bolt11") {
			b.ingestMelt(o, nil)
		}
		if o.Method == "POST" && strings.HasPrefix(o.Path, "/v1/mint/bolt11") {
			b.ingestMint(o) // remembers the outputs' quote
		}
		return
	}
	p := o.Path
	if i := strings.IndexByte(p, '?'); i >= 0 {
		p = p[:i]
	}
	switch {
	case o.Method == "POST" && p == "/v1/swap":
		b.ingestSwap(o)
	case o.Method == "POST" && p == "/v1/mint/quote/bolt11":
		b.ingestMintQuote(o)
	case o.Method == "POST" && p == "/v1/mint/bolt11":
		b.ingestMint(o)
	case o.Method == "POST" && p == "/v1/melt/quote/bolt11":
		b.ingestMeltQuote(o)
	case o.Method == "GET" && strings.HasPrefix(p, "/v1/melt/quote/bolt11/"):
		b.ingestMeltQuoteState(o)
	case o.Method == "POST" && p == "/v1/melt/bolt11":
		var resp map[string]any
		if o.Status == 200 {
			json.Unmarshal(o.Resp, &resp)
		}
		b.ingestMelt(o, resp)
	case o.Method == "POST" && p == "/v1/checkstate":
		b.ingestCheckstate(o)
	case o.Method == "POST" && p == "/v1/restore":
		b.ingestRestore(o)
	}
}

func (b *Book) recordSigs(m *MintBook, o *HTTPObs, outs []JOutput, sigs []JSig, via, quote string) (newVal uint64, fresh int) {
	for i, sg := range sigs {
		if i >= len(outs) {
			b.Violate("C20.shape", via, "%s returned more signatures (%d) than outputs (%d)", via, len(sigs), len(outs))
			break
		}
		out := outs[i]
		if old := m.Sigs[out.B_]; old != nil {
			if old.C_ != sg.C_ || old.Amount != sg.Amount || old.ID != sg.ID {
				b.Violate("C15.restore_mismatch", via, "B_ %s signed twice with different results: (%d,%s,%s) vs (%d,%s,%s)",
					short(out.B_), old.Amount, old.ID, short(old.C_), sg.Amount, sg.ID, short(sg.C_))
			}
			continue
		}
		r := &SigRec{B_: out.B_, C_: sg.C_, ID: sg.ID, Amount: sg.Amount, Seq: o.RetSeq, Via: via, Quote: quote}
		if sg.DLEQ != nil {
			r.E, r.S = sg.DLEQ.E, sg.DLEQ.S
		}
		m.Sigs[out.B_] = r
		m.SigSeq = append(m.SigSeq, out.B_)
		newVal = satAdd(newVal, sg.Amount)
		fresh++
		if sg.Amount != out.Amount && via != "restore" {
			b.Violate("C02.sig_amount", via, "%s signed amount %d for an output of amount %d", via, sg.Amount, out.Amount)
		}
		b.checkSig(m, out, sg, via)
		if b.TrackActive && via != "restore" {
			if ks := m.Keysets[sg.ID]; ks != nil {
				if (ks.ActiveUntil != 0 && o.Seq > ks.ActiveUntil) || o.RetSeq < ks.ActiveFrom {
					b.Violate("C09.signed_non_active", via, "%s produced a signature on keyset %s which was not active during the request [%d,%d], active window [%d,%d]",
						via, sg.ID, o.Seq, o.RetSeq, ks.ActiveFrom, ks.ActiveUntil)
				}
				b.w.S.Stats["c09_sig_active_checked"]++
			}
			if sg.ID != out.ID {
				b.Violate("C09.sig_other_keyset", via, "output asked for keyset %s, signature is on %s", out.ID, sg.ID)
			}
		}
	}
	return
}

// NoteRotation: a rotation started at sequence r0 and is complete now. The previously active
// keysets may have been active until now, the new one from r0 on.
func (b *Book) NoteRotation(mint string, r0 int) {
	m := b.Mint(mint)
	now := b.w.S.Seq()
	for _, ks := range m.Keysets {
		if ks.Active {
			if ks.ActiveFrom == 0 || ks.ActiveFrom > r0 {
				if !ks.seenActive {
					ks.ActiveFrom = r0
				}
			}
			ks.seenActive = true
		} else if ks.ActiveUntil == 0 {
			ks.ActiveUntil = now
		}
	}
}

// checkSig: C10 monitor — every blind signature the mint returns is k*B_ for the
// published key of (id, amount) and carries a DLEQ proof that verifies (independent verifier).
func (b *Book) checkSig(m *MintBook, out JOutput, sg JSig, via string) {
	ks := m.Keysets[sg.ID]
	if ks == nil || ks.Keys == nil {
		return
	}
	Khex, ok := ks.Keys[sg.Amount]
	if !ok {
		b.Violate("C10.sig_unknown_amount", via, "signature for amount %d not a key of keyset %s", sg.Amount, sg.ID)
		return
	}
	K, err := parsePoint(Khex)
	if err != nil {
		return
	}
	b.w.S.Stats["c10_sig_checked"]++
	if sg.DLEQ == nil {
		b.Violate("C10.no_dleq", via, "blind signature for %s returned without DLEQ proof", short(out.B_))
		return
	}
	if !hVerifyDLEQ(sg.DLEQ.E, sg.DLEQ.S, K, out.B_, sg.C_) {
		b.Violate("C10.bad_dleq", via, "DLEQ of signature on %s does not verify under published key (%s,%d)", short(out.B_), sg.ID, sg.Amount)
	}
}

func (b *Book) ingestSwap(o *HTTPObs) {
	if o.Status != 200 {
		return
	}
	m := b.Mint(o.Mint)
	var req struct {
		Inputs  []JProof  `json:"inputs"`
		Outputs []JOutput `json:"outputs"`
	}
	var resp struct {
		Signatures []JSig `json:"signatures"`
	}
	if json.Unmarshal(o.Req, &req) != nil || json.Unmarshal(o.Resp, &resp) != nil {
		return
	}
	key := "swap:" + outputsKey(req.Outputs)
	b.w.S.Stats["book_swap_ok"]++
	// duplicate secret inside one accepted request
	seenSec := map[string]bool{}
	for _, p := range req.Inputs {
		if seenSec[p.Secret] {
			b.Violate("C01.dup_in_request", "swap", "swap accepted with the same secret twice in its inputs (%s)", short(hY(p.Secret)))
		}
		seenSec[p.Secret] = true
	}
	_, fresh := b.recordSigs(m, o, req.Outputs, resp.Signatures, "swap", "")
	if fresh == 0 && len(resp.Signatures) > 0 {
		// byte-for-byte idempotent replay (NUT-19) or identical outputs: not a new consumption
		b.w.S.Stats["book_swap_replay"]++
	}
	doneSec := map[string]bool{}
	for _, p := range req.Inputs { // request order, each secret once
		if !doneSec[p.Secret] {
			doneSec[p.Secret] = true
			b.consume(m, p.Secret, req.Inputs, ConsRec{Kind: "swap", Key: key, Seq: o.RetSeq})
		}
	}
	b.checkGenuine(m, req.Inputs, "swap")
	// balance
	in, ok1 := sumProofs(req.Inputs)
	fee, ok2 := m.fee(req.Inputs)
	var out uint64
	for _, sg := range resp.Signatures {
		out = satAdd(out, sg.Amount)
	}
	if ok1 && ok2 {
		if satAdd(out, fee) > in {
			b.Violate("C02.swap_balance", "swap", "swap signed %d for inputs %d with fee %d", out, in, fee)
		}
		// a real wallet asks for exactly inputs minus the fee the mint charges: anything less is
		// value that ends up nowhere (C17: holdings + melted + mint fees add up)
		if _, isWallet := b.w.Wallets[o.From]; isWallet && fresh > 0 && satAdd(out, fee) < in {
			b.w.S.Stats["c17_swap_fee_exact_checked"]++
			b.Violate("C17.value_lost", "swap-overpaid|"+b.w.LastWalletOp, "wallet %s swapped inputs worth %d for outputs worth %d; the mint's fee for these inputs is %d: %d sat end up nowhere (during [%s])", o.From, in, out, fee, in-fee-out, b.w.LastWalletOp)
		} else if isWallet {
			b.w.S.Stats["c17_swap_fee_exact_checked"]++
		}
	} else if !ok1 {
		b.Violate("C02.swap_balance", "swap_overflow", "swap accepted inputs whose sum overflows")
	}
}

// satAdd: saturating addition.
func satAdd(a, b uint64) uint64 {
	if a+b < a {
		return ^uint64(0)
	}
	return a + b
}

func (b *Book) consume(m *MintBook, secret string, inputs []JProof, c ConsRec) {
	r := m.Secrets[secret]
	if r == nil {
		r = &SecretRec{Secret: secret}
		for _, p := range inputs {
			if p.Secret == secret {
				r.Amount, r.ID, r.Witness = p.Amount, p.ID, p.Witness
				break
			}
		}
		m.Secrets[secret] = r
	}
	for _, old := range r.Cons {
		if old.Kind == c.Kind && old.Key == c.Key {
			return
		}
	}
	// locked by an in-flight melt?
	if c.Kind == "swap" {
		for _, qid := range m.LQOrder {
			for _, at := range m.LQ[qid].Attempts {
				if at.Paid && hasSecret(at.Inputs, secret) {
					if p := b.w.LN.Payments[m.Name+"|"+m.LQ[qid].Hash]; p != nil && p.Truth == ptInflight {
						b.Violate("C01.locked_accepted", "swap_while_pending", "swap accepted secret %s while it is locked by in-flight melt %s", short(hY(secret)), short(qid))
					}
				}
			}
		}
	}
	if key, ok := m.EffMelted[secret]; ok && key != c.Key {
		b.Violate("C01.double_spend", "melt(internal, error answer)+"+c.Kind, "secret %s paid for an internal settlement (%s: the mint quote was marked PAID, the request was then answered with an error and kept its inputs locked) and was later accepted again by %s %s", short(hY(secret)), key, c.Kind, c.Key)
	}
	r.Cons = append(r.Cons, c)
	if len(r.Cons) > 1 {
		kinds := []string{}
		for _, x := range r.Cons {
			kinds = append(kinds, x.Kind)
		}
		sort.Strings(kinds)
		b.Violate("C01.double_spend", strings.Join(kinds, "+"), "secret %s (amount %d) consumed %d times: %v", short(hY(secret)), r.Amount, len(r.Cons), r.Cons)
	}
}

func hasSecret(ps []JProof, s string) bool {
	for _, p := range ps {
		if p.Secret == s {
			return true
		}
	}
	return false
}

func (b *Book) ingestMintQuote(o *HTTPObs) {
	if o.Status != 200 {
		return
	}
	m := b.Mint(o.Mint)
	var req struct {
		Amount uint64 `json:"amount"`
		Pubkey string `json:"pubkey"`
	}
	var resp struct {
		Quote, Request string
	}
	if json.Unmarshal(o.Req, &req) != nil || json.Unmarshal(o.Resp, &resp) != nil || resp.Quote == "" {
		return
	}
	q := &MQRec{ID: resp.Quote, Request: resp.Request, Amount: req.Amount, Pubkey: req.Pubkey, Seq: o.RetSeq}
	if bolt, err := decodepay.Decodepay(resp.Request); err == nil {
		q.Hash = bolt.PaymentHash
		if uint64(bolt.MSatoshi) != req.Amount*1000 {
			b.Violate("C02.invoice_amount", "mintquote", "mint quote for %d sat carries an invoice of %d msat", req.Amount, bolt.MSatoshi)
		}
	}
	m.MQ[q.ID] = q
	m.MQOrder = append(m.MQOrder, q.ID)
	if q.Hash != "" {
		m.MQByHash[q.Hash] = q.ID
	}
}

// checkQuoteIssuance: value issued for a quote (through mint responses and through restore of the
// outputs of refused mint requests) against its payments.
func (b *Book) checkQuoteIssuance(m *MintBook, q *MQRec, via string) {
	inv := b.w.LN.Invoices[q.Hash]
	payments := uint64(b.internalSettlements(m, q))
	if inv != nil {
		payments += uint64(inv.PaidCount)
	}
	if payments == 0 {
		b.Violate("C03.before_paid", via, "quote %s has signatures out (%s) before any payment", short(q.ID), via)
	} else if q.Issued > q.Amount*payments {
		b.Violate("C03.over_issue", fmt.Sprintf("issues=%d+restore", len(q.IssueSeqs)), "quote %s (amount %d, payments %d) has issued %d sat: %d mint responses plus signatures of refused requests handed out by restore",
			short(q.ID), q.Amount, payments, q.Issued, len(q.IssueSeqs))
	}
}

func (b *Book) ingestMint(o *HTTPObs) {
	m := b.Mint(o.Mint)
	if o.Status != 200 {
		// remember for which quote these outputs were submitted: should their signatures ever
		// leave the mint through restore, that is an issuance for this quote
		var rq struct {
			Quote   string    `json:"quote"`
			Outputs []JOutput `json:"outputs"`
		}
		if json.Unmarshal(o.Req, &rq) == nil && rq.Quote != "" {
			for _, out := range rq.Outputs {
				if _, seen := m.OutQuote[out.B_]; !seen {
					m.OutQuote[out.B_] = rq.Quote
				}
			}
		}
		return
	}
	var req struct {
		Quote     string    `json:"quote"`
		Outputs   []JOutput `json:"outputs"`
		Signature string    `json:"signature"`
	}
	var resp struct {
		Signatures []JSig `json:"signatures"`
	}
	if json.Unmarshal(o.Req, &req) != nil || json.Unmarshal(o.Resp, &resp) != nil {
		return
	}
	q := m.MQ[req.Quote]
	newVal, fresh := b.recordSigs(m, o, req.Outputs, resp.Signatures, "mint", req.Quote)
	b.w.S.Stats["book_mint_ok"]++
	if q == nil {
		if len(resp.Signatures) > 0 {
			b.Violate("C03.unknown_quote", "mint", "signatures issued for a quote the harness never saw created: %s", short(req.Quote))
		}
		return
	}
	var tot uint64
	for _, sg := range resp.Signatures {
		tot = satAdd(tot, sg.Amount) // saturating: a sum that wraps around uint64 is "more than any quote"
	}
	if tot > q.Amount {
		b.Violate("C02.mint_over_quote", "mint", "mint issued %d for quote of %d", tot, q.Amount)
	}
	if fresh > 0 {
		q.Issued = satAdd(q.Issued, newVal)
		q.IssueSeqs = append(q.IssueSeqs, o.RetSeq)
		inv := b.w.LN.Invoices[q.Hash]
		payments := uint64(b.internalSettlements(m, q))
		if inv != nil {
			payments += uint64(inv.PaidCount)
		}
		if payments == 0 {
			b.Violate("C03.before_paid", "mint", "quote %s issued %d sat before any payment", short(q.ID), newVal)
		} else if q.Issued > q.Amount*payments {
			fp := fmt.Sprintf("issues=%d", len(q.IssueSeqs))
			if q.viaRestore {
				fp += "+restore"
			}
			b.Violate("C03.over_issue", fp, "quote %s (amount %d, payments %d) has issued %d sat in %d issuances (incl. signatures of refused requests handed out by restore: %v)",
				short(q.ID), q.Amount, payments, q.Issued, len(q.IssueSeqs), q.viaRestore)
		}
		// NUT-20
		if q.Pubkey != "" {
			if !verifyNut20(q.Pubkey, q.ID, req.Outputs, req.Signature) {
				b.Violate("C03.nut20", "mint", "locked quote %s issued without a valid signature over the submitted outputs", short(q.ID))
			}
			b.w.S.Stats["c03_nut20_issue"]++
		}
	}
}

// verifyNut20: BIP-340 signature by pubkey over sha256(quote id || B_0 || B_1 ...).
func verifyNut20(pubkeyHex, quote string, outs []JOutput, sigHex string) bool {
	pk, err := parsePoint(pubkeyHex)
	if err != nil {
		return false
	}
	sb, err := hex.DecodeString(sigHex)
	if err != nil {
		return false
	}
	sig, err := schnorr.ParseSignature(sb)
	if err != nil {
		return false
	}
	msg := quote
	for _, o := range outs {
		msg += o.B_
	}
	h := sha256.Sum256([]byte(msg))
	return sig.Verify(h[:], pk)
}

func (b *Book) ingestMeltQuote(o *HTTPObs) {
	if o.Status != 200 {
		return
	}
	m := b.Mint(o.Mint)
	var req struct {
		Request string         `json:"request"`
		Options map[string]any `json:"options"`
	}
	var resp struct {
		Quote      string `json:"quote"`
		Amount     uint64 `json:"amount"`
		FeeReserve uint64 `json:"fee_reserve"`
		State      string `json:"state"`
	}
	if json.Unmarshal(o.Req, &req) != nil || json.Unmarshal(o.Resp, &resp) != nil || resp.Quote == "" {
		return
	}
	q := &LQRec{ID: resp.Quote, Request: req.Request, Amount: resp.Amount, Reserve: resp.FeeReserve, LastState: resp.State, Seq: o.RetSeq}
	if bolt, err := decodepay.Decodepay(req.Request); err == nil {
		q.Hash = bolt.PaymentHash
	}
	if _, ok := req.Options["mpp"]; ok {
		q.Mpp = true
	}
	m.LQ[q.ID] = q
	m.LQOrder = append(m.LQOrder, q.ID)
}

func (b *Book) ingestMeltQuoteState(o *HTTPObs) {
	if o.Status != 200 {
		return
	}
	m := b.Mint(o.Mint)
	var resp struct {
		Quote    string `json:"quote"`
		State    string `json:"state"`
		Preimage string `json:"payment_preimage"`
	}
	if json.Unmarshal(o.Resp, &resp) != nil {
		return
	}
	if q := m.LQ[resp.Quote]; q != nil {
		q.LastState = resp.State
		if resp.State == "PAID" {
			q.Preimage = resp.Preimage
			b.markPaidByPoll(m, q, o)
		}
	}
}

// markPaidByPoll: a poll reported PAID: the attempt that locked the inputs is the consumption.
func (b *Book) markPaidByPoll(m *MintBook, q *LQRec, o *HTTPObs) {
	for _, at := range q.Attempts {
		if at.Paid {
			return
		}
	}
}

// ingestMelt records a melt attempt. resp == nil: no 200 response (error or no response at all).
func (b *Book) ingestMelt(o *HTTPObs, resp map[string]any) {
	m := b.Mint(o.Mint)
	var req struct {
		Quote  string   `json:"quote"`
		Inputs []JProof `json:"inputs"`
	}
	if json.Unmarshal(o.Req, &req) != nil {
		return
	}
	q := m.LQ[req.Quote]
	if q == nil {
		return
	}
	at := &MeltAttempt{Obs: o, Quote: req.Quote, Inputs: req.Inputs}
	q.Attempts = append(q.Attempts, at)
	if resp != nil {
		st, _ := resp["state"].(string)
		at.State = st
		q.LastState = st
		if st == "PAID" {
			if pre, ok := resp["payment_preimage"].(string); ok {
				q.Preimage = pre
			}
		}
	}
	b.w.S.Stats["book_melt_attempt"]++
	// attribution of Lightning payments: pay calls made by the handler task of this request
	paidLN := false
	for i := len(b.w.LN.Calls) - 1; i >= 0; i-- {
		c := b.w.LN.Calls[i]
		if c.Seq < o.Seq {
			break
		}
		if c.Mint != o.Mint || c.Hash != q.Hash || c.Task != o.Handler {
			continue
		}
		if c.Method == "SendPayment" || c.Method == "PayPartialAmount" {
			if !strings.HasPrefix(c.Answer, "error:already") && !strings.HasPrefix(c.Answer, "failed:invoice already paid") {
				paidLN = true
				if c.Seq > at.PaySeq {
					at.PaySeq = c.Seq
				}
				// C02: the fee limit authorised must not exceed the reserve the user paid
				if c.Arg > q.Reserve {
					b.Violate("C02.fee_limit", c.Method, "%s authorised fee limit %d sat for melt quote with fee_reserve %d (amount %d)", c.Method, c.Arg, q.Reserve, q.Amount)
				}
			}
		}
	}
	internal := false
	if !paidLN && at.State == "PAID" {
		// PAID without a pay call: internal settlement against a mint quote of the same mint
		if mq := m.MQByHash[q.Hash]; mq != "" {
			internal = true
			// the melt that pays a mint quote must be worth that quote (an invoice with the same
			// payment hash but a lower amount is not that quote's invoice)
			if q.Amount < m.MQ[mq].Amount {
				b.Violate("C03.internal_underpaid", "melt", "mint quote %s over %d sat was settled internally by a melt of %d sat (invoice with the same payment hash, other amount)", short(mq), m.MQ[mq].Amount, q.Amount)
			}
			alreadyCounted := false
			for _, other := range q.Attempts {
				if other != at && other.Paid {
					alreadyCounted = true
				}
			}
			if !alreadyCounted {
				m.MQ[mq].Internal++
				b.w.S.Stats["book_internal_settle"]++
			}
		}
	}
	if !paidLN && !internal && at.State != "PAID" {
		if mq := m.MQByHash[q.Hash]; mq != "" && b.handlerSettledInternally(o, m.Name, mq) {
			if m.EffMelted == nil {
				m.EffMelted = map[string]string{}
			}
			for _, pr := range req.Inputs {
				m.EffMelted[pr.Secret] = "melt:" + short(q.ID) + fmt.Sprint(o.Seq)
			}
			b.w.S.Stats["book_internal_effective_despite_error"]++
		}
	}
	if paidLN || internal {
		at.Paid = true
		in, ok := sumProofs(req.Inputs)
		fee, ok2 := m.fee(req.Inputs)
		if ok && ok2 && in < q.Amount+q.Reserve+fee {
			b.Violate("C02.melt_under", "melt", "melt paid for quote amount %d reserve %d fee %d with inputs worth only %d", q.Amount, q.Reserve, fee, in)
		}
	}
	if at.Paid && at.State == "PAID" {
		// acknowledged as paid: the inputs are consumed now (other outcomes are settled in FinalizeMelts)
		seenS := map[string]bool{}
		for _, pr := range at.Inputs {
			if !seenS[pr.Secret] {
				seenS[pr.Secret] = true
				b.consume(m, pr.Secret, at.Inputs, ConsRec{Kind: "melt", Key: "melt:" + short(q.ID) + fmt.Sprint(at.Obs.Seq), Seq: at.Obs.Seq})
			}
		}
	}
	if at.Paid {
		b.checkGenuine(m, req.Inputs, "melt")
		seen := map[string]bool{}
		for _, p := range req.Inputs {
			if seen[p.Secret] {
				b.Violate("C01.dup_in_request", "melt", "melt paid with the same secret twice in its inputs (%s)", short(hY(p.Secret)))
			}
			seen[p.Secret] = true
		}
	}
}

// handlerSettledInternally: the handler of this melt request wrote the mint quote PAID and did not
// afterwards release its inputs (seam log of that very task).
func (b *Book) handlerSettledInternally(o *HTTPObs, mint, mq string) bool {
	want := "db.UpdateMintQuoteState " + short(mq) + " PAID"
	settled := false
	for _, c := range b.w.SeamLog {
		if c.Seq < o.Seq || c.Node != mint || c.Task != o.Handler || c.Err {
			continue
		}
		if c.Label == want {
			settled = true
		} else if settled && strings.HasPrefix(c.Label, "db.RemovePendingProofs") {
			return false
		}
	}
	return settled
}

// FinalizeMelts is run at quiescent points once every in-flight payment reached its
// final outcome: a melt attempt whose Lightning payment succeeded (or that was settled
// internally) consumed its inputs.
func (b *Book) FinalizeMelts() {
	for _, name := range b.mintNames() {
		m := b.M[name]
		for _, qid := range m.LQOrder {
			q := m.LQ[qid]
			// several requests may use one quote: a later request can only have made a pay call of its
			// own if the earlier one's payment had failed for good (the backend refuses a second payment
			// of an invoice that is in flight or paid), so the backend's final truth belongs to the request
			// that made the LAST pay call (by the order of the pay calls, not of the requests: a request
			// that started later may have paid, failed and released before an earlier one got to pay)
			lastPaid, lastSeq := -1, -1
			for i, at := range q.Attempts {
				if at.Paid && at.PaySeq > lastSeq {
					lastPaid, lastSeq = i, at.PaySeq
				}
			}
			for i, at := range q.Attempts {
				if !at.Paid {
					continue
				}
				p := b.w.LN.Payments[m.Name+"|"+q.Hash]
				success := at.State == "PAID" || (p != nil && p.Truth == ptSucceeded && i == lastPaid)
				if p != nil && p.Truth == ptInflight && at.State != "PAID" {
					continue // not decided yet; judged once the payment reached its final outcome
				}
				if !success {
					continue
				}
				seen := map[string]bool{}
				for _, pr := range at.Inputs {
					if seen[pr.Secret] {
						continue
					}
					seen[pr.Secret] = true
					b.consume(m, pr.Secret, at.Inputs, ConsRec{Kind: "melt", Key: "melt:" + short(qid) + fmt.Sprint(at.Obs.Seq), Seq: at.Obs.Seq})
				}
			}
		}
	}
}

func (b *Book) mintNames() []string {
	ns := make([]string, 0, len(b.M))
	for n := range b.M {
		ns = append(ns, n)
	}
	sort.Strings(ns)
	return ns
}

func (b *Book) ingestCheckstate(o *HTTPObs) {
	if o.Status != 200 {
		return
	}
	m := b.Mint(o.Mint)
	var req struct {
		Ys []string `json:"Ys"`
	}
	var resp struct {
		States []struct {
			Y       string `json:"Y"`
			State   string `json:"state"`
			Witness string `json:"witness"`
		} `json:"states"`
	}
	if json.Unmarshal(o.Req, &req) != nil || json.Unmarshal(o.Resp, &resp) != nil {
		return
	}
	if len(resp.States) != len(req.Ys) {
		b.Violate("C15.state_shape", "len", "checkstate returned %d states for %d Ys", len(resp.States), len(req.Ys))
		return
	}
	// index of Ys the book knows as consumed by an acknowledged swap
	spentY := map[string]*SecretRec{}
	for _, r := range m.Secrets {
		for _, c := range r.Cons {
			if c.Kind == "swap" && c.Seq < o.Seq {
				spentY[hY(r.Secret)] = r
			}
		}
	}
	// Ys locked by a melt whose Lightning payment is in flight right now: inputs of the request that
	// made the last pay call on its quote, pay call made before this state check started, backend
	// truth "in flight" (neither refused nor ended)
	inflightY := map[string]string{}
	for _, qid := range m.LQOrder {
		q := m.LQ[qid]
		p := b.w.LN.Payments[m.Name+"|"+q.Hash]
		if p == nil || p.Truth != ptInflight {
			continue
		}
		var last *MeltAttempt
		for _, at := range q.Attempts {
			if at.Paid && at.PaySeq > 0 && (last == nil || at.PaySeq > last.PaySeq) {
				last = at
			}
		}
		if last != nil && last.PaySeq < o.Seq {
			for _, pr := range last.Inputs {
				inflightY[hY(pr.Secret)] = qid
			}
		}
	}
	for i, st := range resp.States {
		if st.Y != req.Ys[i] {
			b.Violate("C15.state_order", "order", "checkstate answer %d is for Y %s, request asked %s", i, short(st.Y), short(req.Ys[i]))
		}
		if qid, ok := inflightY[st.Y]; ok && spentY[st.Y] == nil {
			b.w.S.Stats["c15_inflight_checked"]++
			if st.State != "PENDING" {
				b.Violate("C15.state_wrong", "inflight:PENDING->"+st.State, "checkstate reports %s for Y %s, an input of melt %s whose Lightning payment is in flight", st.State, short(st.Y), short(qid))
			}
		}
		if r := spentY[st.Y]; r != nil {
			b.w.S.Stats["c15_spent_checked"]++
			if st.State != "SPENT" {
				b.Violate("C01.spent_not_reported", "checkstate", "secret %s was swapped (ack seq<%d) but checkstate reports %s", short(st.Y), o.Seq, st.State)
			} else if st.Witness != r.Witness {
				b.Violate("C15.witness", "checkstate", "spent secret %s reported with witness %q, was spent with %q", short(st.Y), st.Witness, r.Witness)
			}
		}
	}
}

func (b *Book) ingestRestore(o *HTTPObs) {
	if o.Status != 200 {
		return
	}
	m := b.Mint(o.Mint)
	var req struct {
		Outputs []JOutput `json:"outputs"`
	}
	var resp struct {
		Outputs    []JOutput `json:"outputs"`
		Signatures []JSig    `json:"signatures"`
	}
	if json.Unmarshal(o.Req, &req) != nil || json.Unmarshal(o.Resp, &resp) != nil {
		return
	}
	if len(resp.Outputs) != len(resp.Signatures) {
		b.Violate("C15.restore_shape", "len", "restore returned %d outputs and %d signatures", len(resp.Outputs), len(resp.Signatures))
		return
	}
	asked := map[string]bool{}
	for _, out := range req.Outputs {
		asked[out.B_] = true
	}
	returned := map[string]bool{}
	for i, out := range resp.Outputs {
		sg := resp.Signatures[i]
		returned[out.B_] = true
		if !asked[out.B_] {
			b.Violate("C15.restore_unasked", "restore", "restore returned B_ %s that was not asked for", short(out.B_))
			continue
		}
		if old := m.Sigs[out.B_]; old != nil {
			b.w.S.Stats["c15_restore_checked"]++
			e, s := "", ""
			if sg.DLEQ != nil {
				e, s = sg.DLEQ.E, sg.DLEQ.S
			}
			if old.C_ != sg.C_ || old.Amount != sg.Amount || old.ID != sg.ID || (old.Via != "restore" && (old.E != e || old.S != s)) {
				b.Violate("C15.restore_mismatch", "restore", "restore of %s returned (%d,%s,%s,dleq %s) but originally (%d,%s,%s,dleq %s)",
					short(out.B_), sg.Amount, sg.ID, short(sg.C_), short(e), old.Amount, old.ID, short(old.C_), short(old.E))
			}
		} else {
			// a signature the book had not seen: legitimate only for an operation whose response never existed (crash)
			r := &SigRec{B_: out.B_, C_: sg.C_, ID: sg.ID, Amount: sg.Amount, Seq: o.RetSeq, Via: "restore"}
			if sg.DLEQ != nil {
				r.E, r.S = sg.DLEQ.E, sg.DLEQ.S
			}
			m.Sigs[out.B_] = r
			m.SigSeq = append(m.SigSeq, out.B_)
			b.w.S.Stats["book_restore_new_sig"]++
			b.checkSig(m, JOutput{Amount: sg.Amount, ID: sg.ID, B_: out.B_}, sg, "restore")
			if qid := m.OutQuote[out.B_]; qid != "" {
				if q := m.MQ[qid]; q != nil {
					// issued for that quote, handed out through restore instead of the mint response
					b.w.S.Stats["book_restore_issuance_for_quote"]++
					q.Issued = satAdd(q.Issued, sg.Amount)
					q.viaRestore = true
					b.checkQuoteIssuance(m, q, "restore")
				}
			}
		}
	}
	for _, out := range req.Outputs {
		if old := m.Sigs[out.B_]; old != nil && old.Seq < o.Seq && !returned[out.B_] {
			b.Violate("C15.restore_missing", "restore", "restore did not return signature for %s issued via %s", short(out.B_), old.Via)
		}
	}
}

// internalSettlements counts how often a melt request marked this mint quote PAID
// (settleQuotesInternally), taken from the seam log: the inputs of such a melt are
// locked or spent from then on, whatever the melt's HTTP response turned out to be -
// unless that very request went on to remove its inputs from the pending table.
func (b *Book) internalSettlements(m *MintBook, q *MQRec) int {
	n := 0
	want := "db.UpdateMintQuoteState " + short(q.ID) + " PAID"
	for i, c := range b.w.SeamLog {
		if c.Node == m.Name && !c.Err && c.Label == want && (b.w.Net.MeltHandlers[c.Task] || c.Task == "driver") {
			// ... unless the same request afterwards released its inputs again (settlement aborted:
			// nothing was paid for this quote)
			released := false
			for _, d := range b.w.SeamLog[i+1:] {
				if d.Task == c.Task && d.Node == c.Node && !d.Err && strings.HasPrefix(d.Label, "db.RemovePendingProofs") {
					released = true
					break
				}
			}
			if !released {
				n++
			}
		}
	}
	if q.Internal > n {
		n = q.Internal
	}
	return n
}

// checkGenuine (C04): an input may be accepted only if its C is k*hash_to_curve(secret) for
// the key the harness derives itself for exactly the claimed (keyset, amount).
func (b *Book) checkGenuine(m *MintBook, inputs []JProof, via string) {
	if !b.w.CheckGenuine {
		return
	}
	for _, p := range inputs {
		b.w.S.Stats["c04_accepted_checked"]++
		if len(p.Secret) > 512 {
			b.Violate("C04.oversize_accepted", via, "%s accepted an input whose secret is %d bytes long (limit 512 bytes)", via, len(p.Secret))
		}
		if ok, why := b.w.GenuineProof(m.Name, p); !ok {
			b.Violate("C04.forged_accepted", via, "%s accepted an input that is not a genuine signature at its amount (%s): amount %d id %s", via, why, p.Amount, p.ID)
		}
	}
}

// HasViolation reports whether a violation of the given rule was recorded in this run.
func (b *Book) HasViolation(rule string) bool {
	for _, v := range b.Violations {
		if v.Rule == rule {
			return true
		}
	}
	return false
}
