package sim

import (
	"fmt"
	"runtime"
	"sort"
	"strconv"
	"strings"
	"sync"
	"testing/synctest"
	"time"
)

// HarnessError is raised (panic) for trouble of the machinery itself. The worker
// turns it into exit status 2, never into a VIOLATION.
type HarnessError struct{ Msg string }

func (h HarnessError) Error() string { return "harness: " + h.Msg }

func harnessf(format string, a ...any) { panic(HarnessError{fmt.Sprintf(format, a...)}) }

// Inc is one incarnation of a node (a mint or wallet process, or an external actor).
type Inc struct {
	Node  string // "A", "B", "w1", "ext"
	Epoch int
	Alive bool
}

func (i *Inc) String() string { return fmt.Sprintf("%s#%d", i.Node, i.Epoch) }

type taskState int

const (
	tsRunning taskState = iota // released, executing or durably blocked off-seam
	tsParked                   // parked at a seam
	tsDone
)

type wakeKind int

const (
	wkGo wakeKind = iota
	wkFault
	wkCrash
)

type Task struct {
	Name   string
	Inc    *Inc
	FG     bool
	state  taskState
	label  string
	kind   string // seam kind where parked: db, ln, http, start
	wake   chan wakeKind
	seq    int // creation order
	doomed bool
}

// FaultPlan: fire Kind when node Node reaches its Pos-th seam call of seam kind
// SeamKind ("" = any) within the current episode.
type FaultPlan struct {
	Node     string
	Kind     string // "crash" | "db_error"
	SeamKind string // "db", "ln", "http", ""
	Pos      int
	fired    bool
}

type Event struct {
	Seq   int    `json:"seq"`
	T     int64  `json:"t"` // simulated unix seconds
	Kind  string `json:"k"` // sched, fault, crash, op, note, http, clock
	Task  string `json:"task,omitempty"`
	Label string `json:"l,omitempty"`
}

type Sim struct {
	Tape *Tape
	mu   sync.Mutex

	driverGid uint64
	byGid     map[uint64]*Task
	tasks     []*Task
	nextSeq   int
	last      *Task

	Quiet    bool // no tape-driven scheduling or faults (setup / audit phases)
	Policy   int  // 0 uniform, 1 sticky, 2 few preemptions (run to completion, 1-3 switches at drawn steps of the episode)
	Plans    []*FaultPlan
	seamCnt  map[string]int // per node+kind within episode
	MaxSteps int
	Steps    int

	// observation
	Events    []Event
	EvSeq     int
	TraceOn   bool
	Stats     map[string]int // fired fault kinds, probes
	SchedHash uint64
	Start     time.Time

	// hooks
	OnCrash func(inc *Inc) // called by driver after tasks were killed

	LastFault string            // normalised "kind@seam" of the last fault plan that fired
	FaultTask string            // task at whose seam the plan fired
	CrashedAt map[string]string // task name -> seam label it was parked at when its node crashed
}

func NewSim(tape *Tape) *Sim {
	s := &Sim{
		Tape:     tape,
		byGid:    map[uint64]*Task{},
		seamCnt:  map[string]int{},
		Stats:    map[string]int{},
		MaxSteps: 6000,
		TraceOn:  true,
		Start:    time.Now(),
	}
	s.driverGid = curGid()
	s.SchedHash = 1469598103934665603
	return s
}

func curGid() uint64 {
	var buf [64]byte
	n := runtime.Stack(buf[:], false)
	// "goroutine 123 ["
	f := strings.Fields(string(buf[:n]))
	if len(f) < 2 {
		return 0
	}
	id, _ := strconv.ParseUint(f[1], 10, 64)
	return id
}

func (s *Sim) Now() int64 { return time.Now().Unix() }

func (s *Sim) Probe(name string) {
	s.mu.Lock()
	s.Stats[name]++
	s.mu.Unlock()
}

func (s *Sim) ProbeN(name string, n int) {
	s.mu.Lock()
	s.Stats[name] += n
	s.mu.Unlock()
}

func (s *Sim) Log(kind, task, label string) {
	s.mu.Lock()
	s.EvSeq++
	if s.TraceOn {
		s.Events = append(s.Events, Event{Seq: s.EvSeq, T: time.Now().Unix(), Kind: kind, Task: task, Label: label})
	}
	s.mu.Unlock()
}

// Seq returns a fresh global event sequence number.
func (s *Sim) Seq() int {
	s.mu.Lock()
	s.EvSeq++
	v := s.EvSeq
	s.mu.Unlock()
	return v
}

func (s *Sim) hashStr(x string) {
	h := s.SchedHash
	for i := 0; i < len(x); i++ {
		h ^= uint64(x[i])
		h *= 1099511628211
	}
	h ^= 0xff
	h *= 1099511628211
	s.SchedHash = h
}

// CurrentTask returns the task of the calling goroutine or nil for the driver.
func (s *Sim) CurrentTask() *Task {
	g := curGid()
	if g == s.driverGid {
		return nil
	}
	s.mu.Lock()
	defer s.mu.Unlock()
	return s.byGid[g]
}

// IsDriver reports whether the caller is the driver goroutine.
func (s *Sim) IsDriver() bool { return curGid() == s.driverGid }

// Yield is called by every seam wrapper before the real call. It parks the
// calling goroutine until the scheduler releases it. It returns true when the
// call must be replaced by an injected error. It never returns when the node
// crashes (runtime.Goexit).
func (s *Sim) Yield(inc *Inc, kind, label string) (inject bool) {
	g := curGid()
	if g == s.driverGid {
		return false
	}
	s.mu.Lock()
	t := s.byGid[g]
	if t == nil {
		// goroutine started by the code under test: background task, named by its first seam
		t = &Task{Name: "bg:" + inc.Node + ":" + label, Inc: inc, wake: make(chan wakeKind)}
		t.seq = s.nextSeq
		s.nextSeq++
		s.byGid[g] = t
		s.tasks = append(s.tasks, t)
	}
	if inc != nil && !inc.Alive {
		// zombie of a crashed incarnation
		t.state = tsDone
		delete(s.byGid, g)
		s.mu.Unlock()
		runtime.Goexit()
	}
	if t.doomed {
		t.state = tsDone
		delete(s.byGid, g)
		s.mu.Unlock()
		runtime.Goexit()
	}
	t.state = tsParked
	t.label = label
	t.kind = kind
	if inc != nil {
		t.Inc = inc
	}
	s.mu.Unlock()

	w := <-t.wake
	switch w {
	case wkCrash:
		s.mu.Lock()
		t.state = tsDone
		delete(s.byGid, g)
		s.mu.Unlock()
		runtime.Goexit()
	case wkFault:
		return true
	}
	return false
}

// Go starts fn as a task. The goroutine parks immediately at a "start" seam.
func (s *Sim) Go(name string, inc *Inc, fg bool, fn func()) *Task {
	return s.GoC(name, inc, fg, fn, nil)
}

// GoC is Go with a cleanup function that runs when the task goroutine ends for
// any reason, including a crash of its node before fn started.
func (s *Sim) GoC(name string, inc *Inc, fg bool, fn func(), cleanup func()) *Task {
	t := &Task{Name: name, Inc: inc, FG: fg, wake: make(chan wakeKind)}
	s.mu.Lock()
	t.seq = s.nextSeq
	s.nextSeq++
	t.state = tsRunning
	s.tasks = append(s.tasks, t)
	s.mu.Unlock()
	go func() {
		g := curGid()
		s.mu.Lock()
		s.byGid[g] = t
		s.mu.Unlock()
		defer func() {
			s.mu.Lock()
			t.state = tsDone
			delete(s.byGid, g)
			s.mu.Unlock()
			if cleanup != nil {
				cleanup()
			}
		}()
		s.Yield(inc, "start", "start")
		fn()
	}()
	return t
}

func (s *Sim) parked() []*Task {
	s.mu.Lock()
	defer s.mu.Unlock()
	var p []*Task
	for _, t := range s.tasks {
		if t.state == tsParked {
			p = append(p, t)
		}
	}
	sort.SliceStable(p, func(i, j int) bool { return p[i].Name < p[j].Name })
	// current task first: value 0 = keep running the same task
	if s.last != nil {
		for i, t := range p {
			if t == s.last {
				copy(p[1:i+1], p[0:i])
				p[0] = t
				break
			}
		}
	}
	return p
}

func (s *Sim) gc() {
	s.mu.Lock()
	k := s.tasks[:0]
	for _, t := range s.tasks {
		if t.state != tsDone {
			k = append(k, t)
		}
	}
	s.tasks = k
	s.mu.Unlock()
}

func (s *Sim) fgPending() bool {
	s.mu.Lock()
	defer s.mu.Unlock()
	for _, t := range s.tasks {
		if t.FG && t.state != tsDone {
			return true
		}
	}
	return false
}

// BeginEpisode resets per-episode seam counters and fault plans.
func (s *Sim) BeginEpisode(plans ...*FaultPlan) {
	s.seamCnt = map[string]int{}
	s.Plans = plans
}

// Drive runs the scheduler until every foreground task is done. Background
// tasks parked at that moment stay parked (they are arbitrarily slow
// goroutines) unless drain is set, in which case everything runs to quiescence.
func (s *Sim) Drive(drain bool) {
	idleSleeps := 0
	var pctPts map[int]bool
	contended := 0
	for {
		synctest.Wait()
		p := s.parked()
		if len(p) == 0 {
			if !s.fgPending() {
				s.gc()
				return
			}
			// foreground work is blocked on the clock (context deadline, timer)
			idleSleeps++
			if idleSleeps > 400 {
				harnessf("foreground task blocked without progress after clock advance: %s", s.describeTasks())
			}
			d := time.Second
			if idleSleeps > 70 {
				d = time.Minute
			}
			s.Stats["clock_autoadvance"]++
			time.Sleep(d)
			continue
		}
		if !s.fgPending() && !drain {
			s.gc()
			return
		}
		s.Steps++
		if s.Steps > s.MaxSteps {
			harnessf("step bound %d exceeded: %s", s.MaxSteps, s.describeTasks())
		}
		idx := 0
		if !s.Quiet && len(p) > 1 {
			switch s.Policy {
			case 1:
				if s.Tape.Chance("preempt", 1, 4) {
					idx = 1 + s.Tape.Choose("sched", len(p)-1)
				}
			case 2:
				// PCT-like: the running task keeps running; the episode has d switch points,
				// drawn (once, lazily) as step numbers counted over the contended steps
				if pctPts == nil {
					pctPts = map[int]bool{}
					d := 1 + s.Tape.Choose("pct.d", 3)
					for i := 0; i < d; i++ {
						pctPts[s.Tape.Choose("pct.at", 33)] = true // 0: no switch
					}
				}
				contended++
				if pctPts[contended] {
					idx = 1 + s.Tape.Choose("sched", len(p)-1)
				}
			default:
				idx = s.Tape.Choose("sched", len(p))
			}
			if idx != 0 {
				s.Stats["sched_switch"]++
			}
		}
		t := p[idx]
		s.last = t
		wk := wkGo
		// fault positions count the seam calls of foreground work (the operations under
		// test), not those of background goroutines such as invoice watchers
		if t.kind != "start" && t.Inc != nil && t.FG {
			key := t.Inc.Node + "|" + t.kind
			keyAny := t.Inc.Node + "|"
			s.seamCnt[key]++
			s.seamCnt[keyAny]++
			for _, pl := range s.Plans {
				if pl.fired || pl.Node != t.Inc.Node {
					continue
				}
				if s.seamCnt[pl.Node+"|"+pl.SeamKind] != pl.Pos {
					continue
				}
				if pl.SeamKind != "" && pl.SeamKind != t.kind {
					continue
				}
				pl.fired = true
				switch pl.Kind {
				case "crash":
					s.LastFault = "crash@" + NormLabel(t.label)
					s.FaultTask = t.Name
					s.Stats["fault_crash"]++
					s.Log("crash", t.Name, "before "+t.label)
					s.hashStr("crash@" + t.label)
					s.CrashInc(t.Inc)
					wk = -1
				case "db_error":
					if t.kind == "db" {
						s.LastFault = "db_error@" + NormLabel(t.label)
						s.FaultTask = t.Name
						s.Stats["fault_db_error"]++
						s.Log("fault", t.Name, "db_error at "+t.label)
						s.hashStr("dberr@" + t.label)
						wk = wkFault
					} else {
						pl.fired = false
					}
				}
				break
			}
		}
		if wk == -1 {
			continue
		}
		s.Log("sched", t.Name, t.label)
		s.hashStr(t.Name + ">" + t.label)
		s.mu.Lock()
		t.state = tsRunning
		s.mu.Unlock()
		t.wake <- wk
	}
}

// CrashInc kills every task of the incarnation at its park point. Tasks of the
// incarnation that are blocked off-seam die at their next seam (Yield checks Alive).
func (s *Sim) CrashInc(inc *Inc) {
	inc.Alive = false
	s.mu.Lock()
	var victims []*Task
	for _, t := range s.tasks {
		if t.Inc == inc && t.state == tsParked {
			victims = append(victims, t)
		}
	}
	s.mu.Unlock()
	if s.CrashedAt == nil {
		s.CrashedAt = map[string]string{}
	}
	for _, t := range victims {
		s.CrashedAt[t.Name] = t.label
		s.mu.Lock()
		t.state = tsRunning
		s.mu.Unlock()
		t.wake <- wkCrash
	}
	synctest.Wait()
	if s.OnCrash != nil {
		s.OnCrash(inc)
	}
	synctest.Wait()
}

func (s *Sim) describeTasks() string {
	s.mu.Lock()
	defer s.mu.Unlock()
	var b strings.Builder
	for _, t := range s.tasks {
		fmt.Fprintf(&b, "[%s st=%d fg=%v at=%s] ", t.Name, t.state, t.FG, t.label)
	}
	return b.String()
}

// Run1 runs fn as a single foreground task to completion (background tasks
// compete at seams when Quiet is false).
func (s *Sim) Run1(name string, inc *Inc, fn func()) {
	s.Go(name, inc, true, fn)
	s.Drive(false)
}

// Drain runs all remaining parked background tasks to quiescence.
func (s *Sim) Drain() {
	q := s.Quiet
	s.Quiet = true
	s.Drive(true)
	s.Quiet = q
}

// Sleep advances the simulated clock by d (driver only) and lets timers fire.
func (s *Sim) Sleep(d time.Duration) {
	s.Log("clock", "", d.String())
	s.Stats["clock_jump"]++
	time.Sleep(d)
	synctest.Wait()
}

// NormLabel strips run-specific ids from a seam label: method name plus state words.
func NormLabel(label string) string {
	f := strings.Fields(label)
	if len(f) == 0 {
		return ""
	}
	out := []string{f[0]}
	for _, x := range f[1:] {
		ok := len(x) > 2
		for _, c := range x {
			if !((c >= 'A' && c <= 'Z') || c == '-' || c == '>' || c == '_') {
				ok = false
			}
		}
		if ok {
			out = append(out, x)
		}
	}
	return strings.Join(out, " ")
}
