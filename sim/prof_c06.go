package sim

import (
	"crypto/sha256"
	"database/sql"
	"encoding/hex"
	"encoding/json"
	"fmt"
	"path/filepath"
	"sort"
	"strings"
	"time"

	_ "github.com/mattn/go-sqlite3"
)

// C06 — rejected or malformed requests change nothing and never crash a handler.
// Every valid request an honest actor is about to issue is preceded by mutants from a
// grammar of structural and semantic mutations, delivered through the real HTTP
// handler. Oracle: complete dump of the mint's SQLite tables + Lightning ledger before
// and after each rejected request must be identical; no handler panic; the valid
// request still succeeds afterwards.

func init() {
	Register(&Profile{Prop: "C06", Fatal: []string{"C06."}, Run: runC06, Core: coreC06})
}

var c06Ops = []string{"mintquote", "mint", "swap", "meltquote", "melt", "checkstate", "restore"}

const c06NumMut = 24

func coreC06(tier string) []RunSpec {
	var out []RunSpec
	for oi := range c06Ops {
		for mk := 0; mk < c06NumMut; mk++ {
			out = append(out, RunSpec{Profile: "core:" + c06Ops[oi], Params: map[string]int{"op": oi, "mut": mk}})
		}
	}
	for k := 0; k < 6; k++ {
		out = append(out, RunSpec{Profile: "core:backend-failure", Params: map[string]int{"bf": 1, "k": k}})
	}
	for k := 0; k < 8; k++ {
		out = append(out, RunSpec{Profile: "core:url-mutants", Params: map[string]int{"url": 1, "k": k}})
	}
	for k := 0; k < 16; k++ {
		out = append(out, RunSpec{Profile: "core:racing-reject", Params: map[string]int{"rr": 1, "k": k}})
		out = append(out, RunSpec{Profile: "core:racing-shared-outputs", Params: map[string]int{"rr": 2, "k": k}})
		out = append(out, RunSpec{Profile: "core:racing-melts-shared-inputs", Params: map[string]int{"rr": 3, "k": k}})
	}
	for sk := 0; sk < 10; sk++ {
		for k := 0; k < 2; k++ {
			out = append(out, RunSpec{Profile: "core:semantic-invalid", Params: map[string]int{"sem": 1, "sk": sk, "k": k}})
		}
	}
	for lmk := 0; lmk < c06NumLockMut; lmk++ {
		for k := 0; k < 2; k++ {
			out = append(out, RunSpec{Profile: "core:lock-secret-mutant", Params: map[string]int{"lsm": 1, "lmk": lmk, "k": k}})
		}
	}
	return out
}

// DumpDB returns a canonical dump of every table of the mint database.
func DumpDB(dir string) string {
	db, err := sql.Open("sqlite3", "file:"+filepath.Join(dir, "mint.sqlite.db")+"?mode=ro")
	if err != nil {
		harnessf("dump: %v", err)
	}
	defer db.Close()
	var b strings.Builder
	for _, tbl := range []string{"keysets", "proofs", "pending_proofs", "mint_quotes", "melt_quotes", "blind_signatures"} {
		rows, err := db.Query("SELECT * FROM " + tbl)
		if err != nil {
			harnessf("dump %s: %v", tbl, err)
		}
		cols, _ := rows.Columns()
		var lines []string
		for rows.Next() {
			vals := make([]any, len(cols))
			ptrs := make([]any, len(cols))
			for i := range vals {
				ptrs[i] = &vals[i]
			}
			rows.Scan(ptrs...)
			parts := make([]string, len(cols))
			for i, v := range vals {
				switch x := v.(type) {
				case []byte:
					parts[i] = string(x)
				default:
					parts[i] = fmt.Sprint(x)
				}
			}
			lines = append(lines, strings.Join(parts, "|"))
		}
		rows.Close()
		sort.Strings(lines)
		fmt.Fprintf(&b, "## %s (%d)\n%s\n", tbl, len(lines), strings.Join(lines, "\n"))
	}
	return b.String()
}

func diffDump(a, b string) string {
	la, lb := strings.Split(a, "\n"), strings.Split(b, "\n")
	sa := map[string]bool{}
	for _, l := range la {
		sa[l] = true
	}
	sb := map[string]bool{}
	for _, l := range lb {
		sb[l] = true
	}
	var out []string
	for _, l := range la {
		if !sb[l] {
			out = append(out, "- "+cut(l, 140))
		}
	}
	for _, l := range lb {
		if !sa[l] {
			out = append(out, "+ "+cut(l, 140))
		}
	}
	if len(out) > 6 {
		out = out[:6]
	}
	return strings.Join(out, " ; ")
}

func cut(s string, n int) string {
	if len(s) > n {
		return s[:n] + "…"
	}
	return s
}

type mutant struct {
	Body  []byte
	CType string
	Desc  string
	Path  string
}

// paths of leaves/lists in a JSON value
type jpath []any

func collectPaths(v any, cur jpath, lists *[]jpath, fields *[]jpath) {
	switch x := v.(type) {
	case map[string]any:
		keys := make([]string, 0, len(x))
		for k := range x {
			keys = append(keys, k)
		}
		sort.Strings(keys)
		for _, k := range keys {
			p := append(append(jpath{}, cur...), k)
			*fields = append(*fields, p)
			collectPaths(x[k], p, lists, fields)
		}
	case []any:
		*lists = append(*lists, append(jpath{}, cur...))
		if len(x) > 0 {
			collectPaths(x[0], append(append(jpath{}, cur...), 0), lists, fields)
		}
	}
}

func deepCopy(v any) any {
	b, _ := json.Marshal(v)
	var out any
	json.Unmarshal(b, &out)
	return out
}

func setPath(root any, p jpath, f func(parent any, key any)) {
	cur := root
	for i := 0; i < len(p)-1; i++ {
		switch k := p[i].(type) {
		case string:
			cur = cur.(map[string]any)[k]
		case int:
			cur = cur.([]any)[k]
		}
	}
	f(cur, p[len(p)-1])
}

func pathStr(p jpath) string {
	var s []string
	for _, k := range p {
		s = append(s, fmt.Sprint(k))
	}
	return strings.Join(s, ".")
}

// mutate builds mutant number kind (0..c06NumMut-1) of the valid request.
func mutate(T *Tape, valid map[string]any, kind int) mutant {
	root := deepCopy(valid).(map[string]any)
	var lists, fields []jpath
	collectPaths(root, nil, &lists, &fields)
	m := mutant{CType: "application/json"}
	pickField := func() jpath {
		if len(fields) == 0 {
			return nil
		}
		return fields[T.Choose("mut.field", len(fields))]
	}
	setField := func(desc string, val func(old any) any) {
		p := pickField()
		if p == nil {
			m.Desc = desc + "(no field)"
			return
		}
		setPath(root, p, func(parent any, key any) {
			switch k := key.(type) {
			case string:
				pm := parent.(map[string]any)
				pm[k] = val(pm[k])
			case int:
				pa := parent.([]any)
				pa[k] = val(pa[k])
			}
		})
		m.Desc = desc + " " + pathStr(p)
	}
	switch kind {
	case 0: // each list emptied
		if len(lists) == 0 {
			m.Desc = "empty-list(no list)"
			break
		}
		p := lists[T.Choose("mut.list", len(lists))]
		if len(p) == 0 {
			break
		}
		setPath(root, p, func(parent any, key any) { parent.(map[string]any)[key.(string)] = []any{} })
		m.Desc = "empty-list " + pathStr(p)
	case 1: // field dropped
		p := pickField()
		if p != nil {
			setPath(root, p, func(parent any, key any) {
				if pm, ok := parent.(map[string]any); ok {
					delete(pm, key.(string))
				}
			})
			m.Desc = "drop " + pathStr(p)
		}
	case 2:
		setField("retype->number", func(any) any { return 12345 })
	case 3:
		setField("retype->string", func(any) any { return "notwhatyouexpect" })
	case 4:
		setField("retype->null", func(any) any { return nil })
	case 5:
		setField("retype->object", func(any) any { return map[string]any{"a": 1} })
	case 6:
		setField("retype->array", func(any) any { return []any{1, "x"} })
	case 7:
		setField("retype->bool", func(any) any { return true })
	case 8:
		setField("garble-nonhex", func(old any) any {
			if s, ok := old.(string); ok && len(s) > 2 {
				return "zz" + s[2:]
			}
			return "zz"
		})
	case 9:
		setField("oversize", func(any) any { return strings.Repeat("ab", 300) })
	case 10:
		setField("empty-string", func(any) any { return "" })
	case 11:
		setField("unicode", func(any) any { return "é世界\"\\\n\x00" })
	case 12:
		setField("negative", func(any) any { return -1 })
	case 13:
		setField("huge-number", func(any) any { return json.Number("18446744073709551616") })
	case 14:
		setField("float", func(any) any { return 1.5 })
	case 15: // truncated JSON
		b, _ := json.Marshal(root)
		n := T.Choose("mut.trunc", len(b))
		m.Body = b[:n]
		m.Desc = fmt.Sprintf("truncate@%d/%d", n, len(b))
		return m
	case 16:
		m.CType = "text/plain"
		m.Desc = "content-type text/plain"
	case 17: // empty body
		m.Body = []byte{}
		m.Desc = "empty body"
		return m
	case 18: // list emptied: *all* lists
		for _, p := range lists {
			if len(p) == 1 {
				root[p[0].(string)] = []any{}
			}
		}
		m.Desc = "all lists empty"
	case 19: // top-level not an object
		m.Body = []byte(`[1,2,3]`)
		m.Desc = "top-level array"
		return m
	case 20: // list replaced by null
		if len(lists) > 0 {
			p := lists[T.Choose("mut.list", len(lists))]
			if len(p) == 1 {
				root[p[0].(string)] = nil
				m.Desc = "null-list " + pathStr(p)
			}
		}
	case 21: // duplicate the first element of a list with a changed field (semantic duplicates)
		if len(lists) > 0 {
			p := lists[T.Choose("mut.list", len(lists))]
			if len(p) == 1 {
				if arr, ok := root[p[0].(string)].([]any); ok && len(arr) > 0 {
					dup := deepCopy(arr[0])
					if dm, ok := dup.(map[string]any); ok {
						switch T.Choose("mut.dupfield", 3) {
						case 0:
							dm["witness"] = "w"
						case 1:
							if a, ok := dm["amount"].(float64); ok {
								dm["amount"] = a * 2
							}
						case 2:
						}
					}
					root[p[0].(string)] = append(arr, dup)
					m.Desc = "dup-element " + pathStr(p)
				}
			}
		}
	case 22: // two outputs share one B_ but differ in amount: total unchanged (semantic duplicate)
		if arr, ok := root["outputs"].([]any); ok && len(arr) >= 2 {
			a0, ok0 := arr[0].(map[string]any)
			a1, ok1 := arr[1].(map[string]any)
			if ok0 && ok1 {
				a1["B_"] = a0["B_"]
				m.Desc = "reuse-B_ outputs"
			}
		}
	case 23: // two outputs are one point in two spellings (upper case / uncompressed / mixed case)
		if arr, ok := root["outputs"].([]any); ok && len(arr) >= 2 {
			a0, ok0 := arr[0].(map[string]any)
			a1, ok1 := arr[1].(map[string]any)
			if b, isStr := a0["B_"].(string); ok0 && ok1 && isStr {
				a1["B_"] = respellPoint(b, T.Choose("mut.respell", 3))
				m.Desc = "respelled-B_ outputs"
			}
		}
	}
	if m.Desc == "" {
		m.Desc = fmt.Sprintf("mut%d(noop)", kind)
	}
	m.Body, _ = json.Marshal(root)
	return m
}

// backendFailureStep: the Lightning backend fails inside a request (invoice creation, invoice lookup on
// mint, invoice lookup during internal settlement). The request is answered with an error and must leave
// everything as it was; the same request succeeds once the backend is back.
func c06BackendFailure(rc *RunCtx, m *MW, snapshot func() string, i int) {
	W := m.W
	T := rc.T
	kind := T.Choose("bf.kind", 3)
	ks := W.ActiveKeyset("A")
	a := NewActor(W, fmt.Sprintf("s%d.bf", i))
	rc.Op(fmt.Sprintf("backend-failure kind=%d", kind))
	var mq *MintQuote
	var lq *MeltQuote
	var ins []*HProof
	var outs []*HOutput
	ok := true
	rc.Quietly(func() {
		switch kind {
		case 1:
			mq, _ = a.ReqMintQuote("A", 9, false)
			if mq == nil {
				ok = false
				return
			}
			W.LN.PayExternal(mq.Hash)
			outs = W.NewOutputs(Split(9), ks.ID)
		case 2:
			mq, _ = a.ReqMintQuote("A", 7, false)
			if mq == nil {
				ok = false
				return
			}
			lq, _ = a.ReqMeltQuote("A", mq.Request, 0)
			if lq == nil {
				ok = false
				return
			}
			ins = m.TakeFor("A", lq.Amount+lq.Reserve)
			if ins == nil {
				ok = false
			}
		}
	})
	if !ok {
		return
	}
	do := func() *Resp {
		var r *Resp
		rc.S.BeginEpisode()
		rc.S.Run1(fmt.Sprintf("s%d.bfreq", i), W.Ext, func() {
			switch kind {
			case 0:
				_, r = a.ReqMintQuote("A", 11, false)
			case 1:
				r = a.Post("A", "/v1/mint/bolt11", map[string]any{"quote": mq.ID, "outputs": outsJ(outs)})
			case 2:
				r = a.Melt("A", lq.ID, ins)
			}
		})
		return r
	}
	before := snapshot()
	W.LN.Cfg.InvoiceErrPct, W.LN.Cfg.AmbiguousPct = 100, 100
	r := do()
	W.LN.Cfg.InvoiceErrPct, W.LN.Cfg.AmbiguousPct = 0, 0
	rc.S.Probe(fmt.Sprintf("c06_backend_failure_%d", kind))
	if r == nil || r.OK() {
		return
	}
	if after := snapshot(); after != before {
		W.Book.Violate("C06.changed_state", fmt.Sprintf("backend-failure|%d", kind), "request refused because the Lightning backend failed (%v) changed state: %s", r, diffDump(before, after))
	}
	rc.Nontrivial = true
	r2 := do()
	if r2 == nil || !r2.OK() {
		W.Book.Violate("C06.valid_rejected", fmt.Sprintf("backend-failure|%d", kind), "the same request still fails after the backend recovered: %v", r2)
		return
	}
	switch kind {
	case 1:
		sigs, _ := r2.Body["signatures"].([]any)
		m.User.Purse["A"] = append(m.User.Purse["A"], W.Unblind("A", outs, sigs)...)
	case 2:
		m.afterMelt("A", lq, ins, r2)
	}
}

// c06URLMutants: garbage in the path parameters of the GET endpoints and in the method segment.
// c06RacingReject: a valid request and one or two conflicting requests (same paid quote, other
// outputs) run concurrently. Whoever is answered with an error must not have changed anything: once
// one request succeeded the quote is ISSUED and stays so, and the stored signatures are exactly
// the winner's.
func c06RacingReject(rc *RunCtx, m *MW, i int) {
	W, T := rc.W, rc.T
	ks := W.ActiveKeyset("A")
	n := 2 + T.Choose("rr.n", 2)
	if rc.P("rr", 0) == 2 || (rc.P("rr", 0) == 0 && T.Chance("rr.shared", 1, 3)) {
		c06RacingSharedOutputs(rc, m, i, n)
		return
	}
	if rc.P("rr", 0) == 3 || (rc.P("rr", 0) == 0 && T.Chance("rr.melts", 1, 3)) {
		c06RacingMelts(rc, m, i, n)
		return
	}
	rc.Op(fmt.Sprintf("racing-reject mint x%d", n))
	var mq *MintQuote
	rc.Quietly(func() {
		a := NewActor(W, fmt.Sprintf("s%d.rr", i))
		mq, _ = a.ReqMintQuote("A", 16, false)
		if mq != nil {
			W.LN.PayExternal(mq.Hash)
		}
	})
	if mq == nil {
		return
	}
	ok := make([]bool, n)
	answered := make([]bool, n)
	outs := make([][]*HOutput, n)
	rc.S.BeginEpisode()
	for k := 0; k < n; k++ {
		k := k
		outs[k] = W.NewOutputs(Split(16), ks.ID)
		name := fmt.Sprintf("s%d.rr%d", i, k)
		rc.S.Go(name, W.Ext, true, func() {
			a := NewActor(W, name)
			ps, r := a.Mint("A", mq, outs[k], "")
			answered[k] = r.Err == nil
			if r.OK() {
				ok[k] = true
				m.User.Purse["A"] = append(m.User.Purse["A"], ps...)
			}
		})
	}
	rc.S.Drive(false)
	wins, errs := 0, 0
	for k := range ok {
		if ok[k] {
			wins++
		} else if answered[k] {
			errs++
		}
	}
	rc.S.Probe("c06_racing_reject")
	if wins == 0 || errs == 0 {
		return
	}
	rc.Nontrivial = true
	var st, state string
	var signed int
	rc.Quietly(func() {
		a := NewActor(W, fmt.Sprintf("s%d.rrq", i))
		r := a.PollMintQuote("A", mq.ID)
		state = RespState(r)
		st = r.String()
		for k := range outs {
			if ok[k] {
				continue
			}
			rr := a.Restore("A", outs[k])
			if sg, _ := rr.Body["signatures"].([]any); rr.OK() {
				signed += len(sg)
			}
		}
	})
	if state != "ISSUED" {
		W.Book.Violate("C06.changed_state", "mint|race", "%d concurrent mint requests for one paid quote: %d succeeded, %d were answered with an error, and afterwards the quote is %q (%s) instead of ISSUED: a rejected request changed the quote", n, wins, errs, state, st)
	}
	if signed > 0 {
		W.Book.Violate("C06.changed_state", "mint|race-sigs", "a mint request that was answered with an error left %d stored signatures behind", signed)
	}
}

// c06RacingMelts: n melt requests, each with its own quote, present the SAME inputs; the payments stay
// in flight. At most one request locks the inputs; every request answered with an error must leave
// them exactly as the winner put them: locked (PENDING) for the winner's quote, which stays PENDING.
func c06RacingMelts(rc *RunCtx, m *MW, i int, n int) {
	W := rc.W
	ins := m.pickProofs("A", 1+rc.T.Choose("rm.k", 2))
	if ins == nil {
		m.StepFund()
		return
	}
	fee := m.feeFor("A", ins)
	sum := SumH(ins)
	if sum <= fee+2 {
		m.StepFund()
		return
	}
	rc.Op(fmt.Sprintf("racing-reject melt x%d sharing their inputs", n))
	amt := (sum - fee) / 2
	qs := make([]*MeltQuote, n)
	rc.Quietly(func() {
		for k := range qs {
			inv := W.LN.NewExternalInvoice(amt * 1000)
			W.LN.Scripts[inv.Hash] = &LNScript{Pay: "pending"}
			qs[k], _ = m.User.ReqMeltQuote("A", inv.Bolt11, 0)
		}
	})
	for _, q := range qs {
		if q == nil || q.Amount+q.Reserve+fee > sum {
			return
		}
	}
	state := make([]string, n) // PENDING / PAID / "error" / "" (no answer)
	rc.S.BeginEpisode()
	for k := 0; k < n; k++ {
		k := k
		name := fmt.Sprintf("s%d.rm%d", i, k)
		rc.S.Go(name, W.Ext, true, func() {
			a := NewActor(W, name)
			r := a.Melt("A", qs[k].ID, ins)
			switch {
			case r.Err != nil:
			case r.OK():
				state[k] = RespState(r)
			default:
				state[k] = "error"
			}
		})
	}
	rc.S.Drive(false)
	rc.S.Probe("c06_racing_melts")
	rc.Nontrivial = true
	winner := -1
	errs := 0
	for k, st := range state {
		if st == "PENDING" || st == "PAID" {
			winner = k
		} else if st == "error" {
			errs++
		}
	}
	if winner >= 0 {
		m.User.remove("A", ins)
		m.Pending = append(m.Pending, &PendingMelt{Mint: "A", Q: qs[winner], Ins: ins, Key: "A|" + qs[winner].Hash, Known: true})
	}
	if winner < 0 || errs == 0 || state[winner] != "PENDING" {
		return
	}
	rc.Quietly(func() {
		a := NewActor(W, fmt.Sprintf("s%d.rmq", i))
		Ys := make([]string, len(ins))
		for k, p := range ins {
			Ys[k] = p.Y()
		}
		if r := a.CheckState("A", Ys); r.OK() {
			if arr, _ := r.Body["states"].([]any); len(arr) == len(Ys) {
				for k := range arr {
					if st, _ := arr[k].(map[string]any)["state"].(string); st != "PENDING" {
						W.Book.Violate("C06.changed_state", "melt|race-shared-inputs", "%d melt requests presented the same inputs; one locked them for a payment that is in flight, %d were answered with an error - and afterwards input %d is %s instead of PENDING: a rejected request changed it", n, errs, k, st)
						return
					}
				}
			}
		}
		for k, q := range qs {
			if k != winner && state[k] == "error" {
				if st := RespState(a.PollMeltQuote("A", q.ID)); st != "UNPAID" {
					W.Book.Violate("C06.changed_state", "melt|race-shared-inputs-quote", "a melt request answered with an error left its quote %s instead of UNPAID", st)
				}
			}
		}
	})
}

// c06RacingSharedOutputs: n paid quotes, n concurrent mint requests that all carry the same
// outputs. The mint signs an output once, so at most one request wins; every request answered with an
// error must leave its own quote as it was (PAID), and the corrected request (fresh outputs) must succeed.
func c06RacingSharedOutputs(rc *RunCtx, m *MW, i int, n int) {
	W := rc.W
	ks := W.ActiveKeyset("A")
	rc.Op(fmt.Sprintf("racing-reject mint x%d on %d quotes sharing their outputs", n, n))
	mqs := make([]*MintQuote, n)
	rc.Quietly(func() {
		a := NewActor(W, fmt.Sprintf("s%d.rs", i))
		for k := range mqs {
			if mqs[k], _ = a.ReqMintQuote("A", 16, false); mqs[k] != nil {
				W.LN.PayExternal(mqs[k].Hash)
			}
		}
	})
	for _, q := range mqs {
		if q == nil {
			return
		}
	}
	shared := W.NewOutputs(Split(16), ks.ID)
	ok := make([]bool, n)
	answered := make([]bool, n)
	rc.S.BeginEpisode()
	for k := 0; k < n; k++ {
		k := k
		name := fmt.Sprintf("s%d.rs%d", i, k)
		rc.S.Go(name, W.Ext, true, func() {
			a := NewActor(W, name)
			ps, r := a.Mint("A", mqs[k], shared, "")
			answered[k] = r.Err == nil
			if r.OK() {
				ok[k] = true
				m.User.Purse["A"] = append(m.User.Purse["A"], ps...)
			}
		})
	}
	rc.S.Drive(false)
	rc.S.Probe("c06_racing_shared_outputs")
	rc.Nontrivial = true
	rc.Quietly(func() {
		a := NewActor(W, fmt.Sprintf("s%d.rsq", i))
		for k := range mqs {
			if ok[k] || !answered[k] {
				continue
			}
			r := a.PollMintQuote("A", mqs[k].ID)
			if st := RespState(r); st != "PAID" {
				W.Book.Violate("C06.changed_state", "mint|race-shared-outputs", "mint request on a paid quote was answered with an error (its outputs were being signed for another quote) and afterwards the quote is %q instead of PAID", st)
				continue
			}
			ps, r2 := a.Mint("A", mqs[k], W.NewOutputs(Split(16), ks.ID), "")
			if !r2.OK() {
				W.Book.Violate("C06.valid_rejected", "mint|race-shared-outputs", "after the rejected request the corrected mint request is refused: %v", r2)
				continue
			}
			m.User.Purse["A"] = append(m.User.Purse["A"], ps...)
		}
	})
}

// c06SemanticInvalid: well-formed requests that must be refused for what they ask (not for their
// shape), each followed by the dump comparison and by the corrected request, which must succeed.
func c06SemanticInvalid(rc *RunCtx, m *MW, snapshot func() string, i int) {
	W, T := rc.W, rc.T
	kind := rc.P("sk", -1)
	if kind < 0 {
		kind = T.Choose("sem.kind", 10)
	}
	ks := W.ActiveKeyset("A")
	a := NewActor(W, fmt.Sprintf("s%d.sem", i))
	rc.Op(fmt.Sprintf("semantic-invalid kind=%d", kind))
	var bad, good func() *Resp
	var after func(r *Resp)
	var badIns []*HProof // inputs of the invalid request (beliefs, should it be accepted)
	var badMelt *MeltQuote
	ok := true
	rc.Quietly(func() {
		switch kind {
		case 0: // melt of SIG_ALL-locked inputs (only a swap may spend them); corrected: swap with signed outputs
			src := m.TakeFor("A", 40)
			if src == nil {
				ok = false
				return
			}
			f := m.feeFor("A", src)
			louts := W.NewSigAllOutputs(Split(SumH(src)-f), ks.ID)
			locked, r := m.User.Swap("A", src, louts)
			if !r.OK() {
				ok = false
				return
			}
			m.Spent["A"] = append(m.Spent["A"], src...)
			m.User.remove("A", locked)
			inv := W.LN.NewExternalInvoice(5000)
			lq, _ := a.ReqMeltQuote("A", inv.Bolt11, 0)
			if lq == nil {
				ok = false
				return
			}
			f2 := m.feeFor("A", locked)
			outs := W.NewOutputs(Split(SumH(locked)-f2), ks.ID)
			W.SignOutputsSigAll(outs)
			badIns, badMelt = locked, lq
			bad = func() *Resp { return a.Melt("A", lq.ID, locked) }
			good = func() *Resp {
				return a.Post("A", "/v1/swap", map[string]any{"inputs": proofsJ(locked), "outputs": outsJ(outs)})
			}
			after = func(r *Resp) {
				sigs, _ := r.Body["signatures"].([]any)
				m.Spent["A"] = append(m.Spent["A"], locked...)
				m.User.Purse["A"] = append(m.User.Purse["A"], W.Unblind("A", outs, sigs)...)
			}
		case 1, 2: // melt with inputs worth less than amount + reserve + fees; corrected: enough inputs
			inv := W.LN.NewExternalInvoice(21000)
			W.LN.Scripts[inv.Hash] = &LNScript{Pay: "succeeded"}
			lq, _ := a.ReqMeltQuote("A", inv.Bolt11, 0)
			if lq == nil {
				ok = false
				return
			}
			enough := m.TakeFor("A", lq.Amount+lq.Reserve)
			if enough == nil || len(enough) < 2 {
				ok = false
				return
			}
			short := enough[:len(enough)-1]
			if kind == 2 {
				short = enough[1:]
			}
			if SumH(short) >= lq.Amount+lq.Reserve+m.feeFor("A", short) {
				ok = false // still enough: not an invalid request
				return
			}
			badIns, badMelt = short, lq
			bad = func() *Resp { return a.Melt("A", lq.ID, short) }
			good = func() *Resp { return a.Melt("A", lq.ID, enough) }
			after = func(r *Resp) { m.afterMelt("A", lq, enough, r) }
		case 3: // swap asking for one sat more than inputs minus fees; corrected: exact
			ins := m.pickProofs("A", 2)
			f := m.feeFor("A", ins)
			if ins == nil || SumH(ins) <= f {
				ok = false
				return
			}
			over := W.NewOutputs(Split(SumH(ins)-f+1), ks.ID)
			exact := W.NewOutputs(Split(SumH(ins)-f), ks.ID)
			badIns = ins
			bad = func() *Resp {
				return a.Post("A", "/v1/swap", map[string]any{"inputs": proofsJ(ins), "outputs": outsJ(over)})
			}
			good = func() *Resp {
				return a.Post("A", "/v1/swap", map[string]any{"inputs": proofsJ(ins), "outputs": outsJ(exact)})
			}
			after = func(r *Resp) {
				sigs, _ := r.Body["signatures"].([]any)
				m.User.remove("A", ins)
				m.Spent["A"] = append(m.Spent["A"], ins...)
				m.User.Purse["A"] = append(m.User.Purse["A"], W.Unblind("A", exact, sigs)...)
			}
		case 4: // mint for more than the paid quote; corrected: the quoted amount
			mq, _ := a.ReqMintQuote("A", 12, false)
			if mq == nil {
				ok = false
				return
			}
			W.LN.PayExternal(mq.Hash)
			over := W.NewOutputs(Split(13), ks.ID)
			exact := W.NewOutputs(Split(12), ks.ID)
			bad = func() *Resp {
				return a.Post("A", "/v1/mint/bolt11", map[string]any{"quote": mq.ID, "outputs": outsJ(over)})
			}
			good = func() *Resp {
				return a.Post("A", "/v1/mint/bolt11", map[string]any{"quote": mq.ID, "outputs": outsJ(exact)})
			}
			after = func(r *Resp) {
				sigs, _ := r.Body["signatures"].([]any)
				m.User.Purse["A"] = append(m.User.Purse["A"], W.Unblind("A", exact, sigs)...)
			}
		case 6: // swap whose outputs include a blinded message the mint signed before (a wallet whose
			// counter fell behind does this); corrected: fresh outputs
			var signed *HOutput
			mb := W.Book.Mint("A")
			for k := len(mb.SigSeq) - 1; k >= 0 && signed == nil; k-- {
				if o := W.Outputs[mb.SigSeq[k]]; o != nil && o.ID == ks.ID {
					signed = o
				}
			}
			ins := m.pickProofs("A", 2)
			f := m.feeFor("A", ins)
			if signed == nil || ins == nil || SumH(ins) <= f+signed.Amount {
				ok = false
				return
			}
			rest := W.NewOutputs(Split(SumH(ins)-f-signed.Amount), ks.ID)
			withOld := append([]*HOutput{{Amount: signed.Amount, ID: signed.ID, B_: signed.B_}}, rest...)
			exact := W.NewOutputs(Split(SumH(ins)-f), ks.ID)
			badIns = ins
			bad = func() *Resp {
				return a.Post("A", "/v1/swap", map[string]any{"inputs": proofsJ(ins), "outputs": outsJ(withOld)})
			}
			good = func() *Resp {
				return a.Post("A", "/v1/swap", map[string]any{"inputs": proofsJ(ins), "outputs": outsJ(exact)})
			}
			after = func(r *Resp) {
				sigs, _ := r.Body["signatures"].([]any)
				m.User.remove("A", ins)
				m.Spent["A"] = append(m.Spent["A"], ins...)
				m.User.Purse["A"] = append(m.User.Purse["A"], W.Unblind("A", exact, sigs)...)
			}
		case 7: // a second melt quote for an invoice that already has one; corrected: a fresh invoice
			inv := W.LN.NewExternalInvoice(21 * 1000)
			if q, _ := a.ReqMeltQuote("A", inv.Bolt11, 0); q == nil {
				ok = false
				return
			}
			inv2 := W.LN.NewExternalInvoice(22 * 1000)
			bad = func() *Resp {
				return a.Post("A", "/v1/melt/quote/bolt11", map[string]any{"request": inv.Bolt11, "unit": "sat"})
			}
			good = func() *Resp {
				return a.Post("A", "/v1/melt/quote/bolt11", map[string]any{"request": inv2.Bolt11, "unit": "sat"})
			}
			after = func(r *Resp) {}
		case 8: // melt quote above the configured melt maximum; corrected: exactly the maximum
			max := W.Mints["A"].Cfg.Limits.MeltingSettings.MaxAmount
			if max == 0 {
				ok = false
				return
			}
			over := W.LN.NewExternalInvoice((max + 1) * 1000)
			at := W.LN.NewExternalInvoice(max * 1000)
			bad = func() *Resp {
				return a.Post("A", "/v1/melt/quote/bolt11", map[string]any{"request": over.Bolt11, "unit": "sat"})
			}
			good = func() *Resp {
				return a.Post("A", "/v1/melt/quote/bolt11", map[string]any{"request": at.Bolt11, "unit": "sat"})
			}
			after = func(r *Resp) {}
		case 9: // mint quote above the configured mint maximum, or in another unit; corrected: the maximum, in sat
			max := W.Mints["A"].Cfg.Limits.MintingSettings.MaxAmount
			if max == 0 {
				ok = false
				return
			}
			variant := T.Choose("sem.mq", 2)
			bad = func() *Resp {
				if variant == 1 {
					return a.Post("A", "/v1/mint/quote/bolt11", map[string]any{"amount": 5, "unit": "usd"})
				}
				return a.Post("A", "/v1/mint/quote/bolt11", map[string]any{"amount": max + 1, "unit": "sat"})
			}
			good = func() *Resp {
				return a.Post("A", "/v1/mint/quote/bolt11", map[string]any{"amount": max, "unit": "sat"})
			}
			after = func(r *Resp) {}
		case 5: // swap with one forged input next to valid ones; corrected: only the valid ones
			ins := m.pickProofs("A", 2)
			f := m.feeFor("A", ins)
			if ins == nil || len(ins) < 2 || SumH(ins) <= f {
				ok = false
				return
			}
			forged := *ins[0]
			forged.Secret = randHex(32)
			withForged := []*HProof{ins[1], &forged}
			badIns = []*HProof{ins[1]}
			outsBad := W.NewOutputs(Split(SumH(withForged)-m.feeFor("A", withForged)), ks.ID)
			exact := W.NewOutputs(Split(SumH(ins)-f), ks.ID)
			bad = func() *Resp {
				return a.Post("A", "/v1/swap", map[string]any{"inputs": proofsJ(withForged), "outputs": outsJ(outsBad)})
			}
			good = func() *Resp {
				return a.Post("A", "/v1/swap", map[string]any{"inputs": proofsJ(ins), "outputs": outsJ(exact)})
			}
			after = func(r *Resp) {
				sigs, _ := r.Body["signatures"].([]any)
				m.User.remove("A", ins)
				m.Spent["A"] = append(m.Spent["A"], ins...)
				m.User.Purse["A"] = append(m.User.Purse["A"], W.Unblind("A", exact, sigs)...)
			}
		}
	})
	if !ok || bad == nil {
		return
	}
	run := func(name string, f func() *Resp) *Resp {
		var r *Resp
		rc.S.BeginEpisode()
		rc.S.Run1(fmt.Sprintf("s%d.%s", i, name), W.Ext, func() { r = f() })
		return r
	}
	before := snapshot()
	panicsBefore := len(W.Net.Panics)
	r := run("sembad", bad)
	rc.S.Probe(fmt.Sprintf("c06_semantic_invalid_%d", kind))
	fp := fmt.Sprintf("semantic|%d", kind)
	if len(W.Net.Panics) > panicsBefore {
		W.Book.Violate("C06.panic", fp, "semantically invalid request (kind %d) made the handler panic: %s", kind, cut(W.Net.Panics[len(W.Net.Panics)-1], 300))
		return
	}
	if r == nil || r.Err != nil {
		return
	}
	if r.OK() {
		// accepting it is another property's business (C02/C04/C12), not C06's
		rc.S.Probe("c06_semantic_invalid_accepted")
		if badMelt != nil {
			m.afterMelt("A", badMelt, badIns, r)
		} else if badIns != nil {
			m.User.remove("A", badIns)
			m.Spent["A"] = append(m.Spent["A"], badIns...)
		}
		return
	}
	if a2 := snapshot(); a2 != before {
		W.Book.Violate("C06.changed_state", fp, "semantically invalid request (kind %d) was answered %v but changed state: %s", kind, r, diffDump(before, a2))
	}
	rc.Nontrivial = true
	r2 := run("semgood", good)
	if r2 == nil || !r2.OK() {
		W.Book.Violate("C06.valid_rejected", fp, "corrected request rejected after the semantically invalid one (kind %d): %v", kind, r2)
		return
	}
	after(r2)
}

const c06NumLockMut = 24

// c06LockSecretMutants: inputs whose secret is a NUT-10 spending condition with one element of its
// inside garbled (tag keys and values, key lists, numbers, data, nesting), presented through swap
// and melt - as a forged proof (the lock is looked at before the signature) and as a proof the
// mint really signed (it signs any secret blindly). No handler may panic, and a refusal leaves
// everything as it was.
func c06LockSecretMutants(rc *RunCtx, m *MW, snapshot func() string, i int) {
	W, T := rc.W, rc.T
	if W.LockRing == nil {
		W.LockRing = NewKeyRing(2)
	}
	for len(W.LockRing.Priv) < 5 {
		W.LockRing.Priv = append(W.LockRing.Priv, NewKeyRing(1).Priv[0])
	}
	kr := W.LockRing
	htlc := T.Chance("lsm.htlc", 1, 3)
	mk := rc.P("lmk", -1)
	if mk < 0 {
		mk = T.Choose("lsm.kind", c06NumLockMut)
	}
	genuine := T.Chance("lsm.genuine", 1, 2)
	viaMelt := T.Chance("lsm.melt", 1, 3)
	rc.Op(fmt.Sprintf("lock-secret-mutant kind=%d htlc=%v genuine=%v melt=%v", mk, htlc, genuine, viaMelt))
	pre := randHex(32)
	pb, _ := hex.DecodeString(pre)
	hh := sha256.Sum256(pb)
	kind := "P2PK"
	data := any(kr.PubHex(0))
	if htlc {
		kind, data = "HTLC", hex.EncodeToString(hh[:])
	}
	tags := []any{
		[]any{"sigflag", "SIG_INPUTS"},
		[]any{"n_sigs", "2"},
		[]any{"pubkeys", kr.PubHex(1), kr.PubHex(2)},
		[]any{"locktime", fmt.Sprint(time.Now().Unix() + 3600)},
		[]any{"refund", kr.PubHex(3)},
	}
	body := map[string]any{"nonce": randHex(16), "data": data, "tags": tags}
	setTag := func(idx int, v any) { tags[idx] = v }
	desc := ""
	switch mk {
	case 0:
		setTag(2, []any{"pubkeys", kr.PubHex(1), "02zz" + randHex(31)})
		desc = "pubkeys entry not hex"
	case 1:
		setTag(2, []any{"pubkeys", kr.PubHex(1)[:20], kr.PubHex(2)})
		desc = "pubkeys entry too short"
	case 2:
		setTag(2, []any{"pubkeys", "", kr.PubHex(2)})
		desc = "pubkeys entry empty"
	case 3:
		setTag(2, []any{"pubkeys"})
		desc = "pubkeys tag without keys, n_sigs 2"
	case 4:
		setTag(2, []any{"pubkeys", 7, kr.PubHex(2)})
		desc = "pubkeys entry is a number"
	case 5:
		setTag(1, []any{"n_sigs", "two"})
		desc = "n_sigs not numeric"
	case 6:
		setTag(1, []any{"n_sigs", "-1"})
		desc = "n_sigs negative"
	case 7:
		setTag(1, []any{"n_sigs", "99999999999999999999999"})
		desc = "n_sigs huge"
	case 8:
		setTag(1, []any{"n_sigs"})
		desc = "n_sigs without value"
	case 9:
		setTag(3, []any{"locktime", "soon"})
		desc = "locktime not numeric"
	case 10:
		setTag(3, []any{"locktime", "1"})
		setTag(4, []any{"refund", "03" + randHex(5)})
		desc = "expired locktime, refund key garbled"
	case 11:
		setTag(3, []any{"locktime", "1"})
		setTag(4, []any{"refund"})
		desc = "expired locktime, refund tag without keys"
	case 12:
		body["data"] = "zz" + randHex(10)
		desc = "data garbled"
	case 13:
		body["data"] = ""
		desc = "data empty"
	case 14:
		body["data"] = 5
		desc = "data is a number"
	case 15:
		body["tags"] = []any{[]any{}, []any{"pubkeys", kr.PubHex(1)}, "notalist"}
		desc = "tags with an empty and a non-list entry"
	case 16:
		body["tags"] = nil
		desc = "tags null"
	case 17:
		delete(body, "nonce")
		setTag(0, []any{"sigflag", "SIG_EVERYTHING"})
		desc = "nonce missing, unknown sigflag"
	case 18:
		setTag(2, []any{"pubkeys", kr.PubHex(1), kr.PubHex(1), "02" + randHex(32)})
		desc = "pubkeys duplicate and a point not on the curve"
	case 19:
		kind = "P2PKH"
		desc = "unknown kind"
	case 20:
		body["data"] = "05" + randHex(32)
		desc = "data is hex but not a curve point (bad prefix)"
	case 21:
		setTag(2, []any{"pubkeys", "02abcd", kr.PubHex(2)})
		desc = "pubkeys entry is hex but too short for a key"
	case 22:
		setTag(3, []any{"locktime", "1"})
		setTag(4, []any{"refund", "02" + strings.Repeat("00", 32)})
		desc = "expired locktime, refund key is hex but not on the curve"
	case 23:
		body["data"] = strings.Repeat("ab", 40)
		desc = "data is hex of the wrong length"
	}
	bj, _ := json.Marshal(body)
	secret := fmt.Sprintf(`["%s",%s]`, kind, string(bj))
	msg := []byte(secret)
	wit := map[string]any{"signatures": []string{SignMsg(kr.Priv[0], msg, 0), SignMsg(kr.Priv[1], msg, 0), SignMsg(kr.Priv[3], msg, 0)}}
	if htlc {
		wit["preimage"] = pre
	}
	wj, _ := json.Marshal(wit)
	ks := W.ActiveKeyset("A")
	a := NewActor(W, fmt.Sprintf("s%d.lsm", i))
	var proof *HProof
	var lq *MeltQuote
	ok := true
	rc.Quietly(func() {
		if genuine {
			src := m.TakeFor("A", 8)
			if src == nil {
				ok = false
				return
			}
			f := m.feeFor("A", src)
			amts := Split(SumH(src) - f)
			outs := make([]*HOutput, len(amts))
			for k, x := range amts {
				sec := ""
				if k == len(amts)-1 {
					sec = secret // the largest denomination carries the mutated secret
				}
				outs[k] = W.NewOutput(x, ks.ID, sec)
			}
			ps, r := m.User.Swap("A", src, outs)
			if !r.OK() || len(ps) == 0 {
				ok = false
				return
			}
			m.Spent["A"] = append(m.Spent["A"], src...)
			proof = ps[len(ps)-1]
			m.User.remove("A", []*HProof{proof})
			proof.Witness = string(wj)
		} else {
			base := m.pickProofs("A", 1)
			if base == nil {
				ok = false
				return
			}
			cp := *base[0]
			cp.Secret, cp.Witness = secret, string(wj)
			proof = &cp
		}
		if viaMelt {
			inv := W.LN.NewExternalInvoice(1000)
			W.LN.Scripts[inv.Hash] = &LNScript{Pay: "succeeded"}
			lq, _ = a.ReqMeltQuote("A", inv.Bolt11, 0)
			if lq == nil {
				ok = false
			}
		}
	})
	if !ok || proof == nil {
		return
	}
	fee := m.feeFor("A", []*HProof{proof})
	var outs []*HOutput
	if proof.Amount > fee {
		outs = W.NewOutputs(Split(proof.Amount-fee), ks.ID)
	}
	before := snapshot()
	panicsBefore := len(W.Net.Panics)
	var r *Resp
	rc.S.BeginEpisode()
	rc.S.Run1(fmt.Sprintf("s%d.lsmreq", i), W.Ext, func() {
		if viaMelt {
			r = a.Melt("A", lq.ID, []*HProof{proof})
		} else {
			r = a.Post("A", "/v1/swap", map[string]any{"inputs": proofsJ([]*HProof{proof}), "outputs": outsJ(outs)})
		}
	})
	rc.S.Probe("c06_lock_secret_mutant")
	fp := fmt.Sprintf("lock-secret|%d", mk)
	if len(W.Net.Panics) > panicsBefore {
		W.Book.Violate("C06.panic", fp, "input with a NUT-10 secret whose inside is garbled (%s; htlc=%v genuine=%v melt=%v) made the handler panic: %s", desc, htlc, genuine, viaMelt, cut(W.Net.Panics[len(W.Net.Panics)-1], 300))
		return
	}
	rc.Nontrivial = true
	if r == nil || r.Err != nil {
		return
	}
	if r.OK() {
		// accepted (for instance a kind the mint does not treat as a condition): the proof is used up
		if viaMelt {
			m.afterMelt("A", lq, []*HProof{proof}, r)
		} else if genuine {
			sigs, _ := r.Body["signatures"].([]any)
			m.Spent["A"] = append(m.Spent["A"], proof)
			m.User.Purse["A"] = append(m.User.Purse["A"], W.Unblind("A", outs, sigs)...)
		}
		return
	}
	if after := snapshot(); after != before {
		W.Book.Violate("C06.changed_state", fp, "request with a garbled NUT-10 secret (%s) was answered %v but changed state: %s", desc, r, diffDump(before, after))
	}
}

func c06URLMutants(rc *RunCtx, m *MW, snapshot func() string, i int) {
	W := m.W
	T := rc.T
	garb := []string{"x", "0", strings.Repeat("a", 700), "%00", "..%2f..", "%zz", "é世界", randHex(32), "00ffffffffffffff", "active_keyset_key", " ", "null"}
	g := garb[T.Choose("url.g", len(garb))]
	paths := []string{"/v1/mint/quote/bolt11/" + g, "/v1/melt/quote/bolt11/" + g, "/v1/keys/" + g, "/v1/mint/quote/" + g, "/v1/melt/quote/" + g + "/abc", "/v1/mint/" + g, "/v1/melt/" + g, "/v1/" + g}
	pth := paths[T.Choose("url.p", len(paths))]
	method := []string{"GET", "POST"}[T.Choose("url.m", 2)]
	rc.Op("url-mutant " + method + " " + cut(pth, 40))
	before := snapshot()
	panicsBefore := len(W.Net.Panics)
	var r *Resp
	a := NewActor(W, fmt.Sprintf("s%d.url", i))
	rc.S.BeginEpisode()
	rc.S.Run1(fmt.Sprintf("s%d.urlreq", i), W.Ext, func() {
		var body []byte
		if method == "POST" {
			body = []byte(`{"quote":"x","outputs":[],"inputs":[],"amount":1,"unit":"sat","request":"lnbc1"}`)
		}
		r = a.do(method, "A", pth, body, "application/json")
	})
	rc.S.Probe("c06_url_mutant")
	if len(W.Net.Panics) > panicsBefore {
		W.Book.Violate("C06.panic", "url|"+method, "%s %s made the handler panic: %s", method, cut(pth, 60), cut(W.Net.Panics[len(W.Net.Panics)-1], 300))
	}
	if r != nil && r.Err == nil && r.Status != 200 {
		if after := snapshot(); after != before {
			W.Book.Violate("C06.changed_state", "url|"+method, "%s %s answered %d but changed state: %s", method, cut(pth, 60), r.Status, diffDump(before, after))
		}
		rc.Nontrivial = true
	}
}

func runC06(rc *RunCtx) {
	T := rc.T
	fee := []uint{0, 100}[T.Choose("cfg.fee", 2)]
	opts := MintOpts{Fee: fee}
	// generous per-quote limits (no request of the ordinary traffic comes near them)
	opts.Limits.MintingSettings.MaxAmount = 6000
	opts.Limits.MeltingSettings.MaxAmount = 5000
	rc.NewMintWorld(LNConfig{FeePolicy: T.Choose("cfg.feepol", 3)}, opts)
	W := rc.W
	m := NewMW(rc, "A")
	m.Strict = true
	m.Fees = map[string][]uint64{"A": {uint64(fee)}}
	rc.Quietly(func() { m.User.Fund("A", 255); m.User.Fund("A", 300) })
	node := W.Mints["A"]
	forcedOp, hasOp := rc.Spec.Params["op"]
	forcedMut, hasMut := rc.Spec.Params["mut"]

	snapshot := func() string {
		led := W.LN.ledger("A")
		d := DumpDB(node.Dir)
		// UNPAID -> PAID of a mint quote whose invoice really is settled is the discovery of an
		// external fact, not an effect of the request's content: normalise it away
		lines := strings.Split(d, "\n")
		for i, l := range lines {
			if strings.Contains(l, "|UNPAID|") {
				f := strings.Split(l, "|")
				if len(f) > 4 {
					if inv := W.LN.Invoices[f[2]]; inv != nil && inv.Settled && inv.Owner == "A" {
						lines[i] = strings.Replace(l, "|UNPAID|", "|PAID|", 1)
					}
				}
			}
		}
		return strings.Join(lines, "\n") + fmt.Sprintf("## ln in=%d out=%d payments=%d", led.InflowMsat, led.OutflowMsat, len(W.LN.PayOrder))
	}

	rc.StepLoop(2, 8, func(i int) {
		m.step = i
		// some ordinary traffic in between so that mutants arrive at different states
		if !hasOp && T.Chance("bg", 1, 2) {
			m.Step(T.Pick("bg.kind", 1, 3, 2, 0, 1, 0, 0, 1, 1), false)
		}
		if (!hasOp && rc.P("rr", 0) == 0 && rc.P("sem", 0) == 0 && rc.P("lsm", 0) == 0 && T.Chance("urlmutant", 1, 6)) || rc.P("url", 0) == 1 {
			c06URLMutants(rc, m, snapshot, i)
			return
		}
		if (!hasOp && rc.P("rr", 0) == 0 && rc.P("lsm", 0) == 0 && T.Chance("semantic", 1, 5)) || rc.P("sem", 0) == 1 {
			c06SemanticInvalid(rc, m, snapshot, i)
			return
		}
		if (!hasOp && rc.P("rr", 0) == 0 && rc.P("sem", 0) == 0 && T.Chance("locksecret", 1, 5)) || rc.P("lsm", 0) == 1 {
			c06LockSecretMutants(rc, m, snapshot, i)
			return
		}
		if (!hasOp && T.Chance("racingreject", 1, 6)) || rc.P("rr", 0) >= 1 {
			c06RacingReject(rc, m, i)
			return
		}
		if (!hasOp && T.Chance("backendfail", 1, 5)) || rc.P("bf", 0) == 1 {
			c06BackendFailure(rc, m, snapshot, i)
			return
		}
		oi := T.Choose("op", len(c06Ops))
		if hasOp {
			oi = forcedOp
		}
		op := c06Ops[oi]
		ks := W.ActiveKeyset("A")
		a := NewActor(W, fmt.Sprintf("s%d.c06", i))
		var path string
		var valid map[string]any
		var ins []*HProof
		var outs []*HOutput
		var mq *MintQuote
		var lq *MeltQuote
		prepOK := true
		rc.Quietly(func() {
			switch op {
			case "mintquote":
				path = "/v1/mint/quote/bolt11"
				valid = map[string]any{"amount": 21, "unit": "sat"}
			case "mint":
				path = "/v1/mint/bolt11"
				mq, _ = a.ReqMintQuote("A", 13, T.Chance("lock", 1, 3))
				if mq == nil {
					prepOK = false
					return
				}
				W.LN.PayExternal(mq.Hash)
				outs = W.NewOutputs(Split(13), ks.ID)
				valid = map[string]any{"quote": mq.ID, "outputs": outsJ(outs)}
				if mq.Priv != nil {
					valid["signature"] = SignNut20(mq.Priv, mq.ID, outs)
				}
			case "swap":
				path = "/v1/swap"
				ins = m.pickProofs("A", 1+T.Choose("swap.k", 3))
				f := m.feeFor("A", ins)
				if ins == nil || SumH(ins) <= f {
					prepOK = false
					return
				}
				outs = W.NewOutputs(Split(SumH(ins)-f), ks.ID)
				valid = map[string]any{"inputs": proofsJ(ins), "outputs": outsJ(outs)}
			case "meltquote":
				path = "/v1/melt/quote/bolt11"
				inv := W.LN.NewExternalInvoice(17000)
				valid = map[string]any{"request": inv.Bolt11, "unit": "sat"}
			case "melt":
				path = "/v1/melt/bolt11"
				inv := W.LN.NewExternalInvoice(19000)
				lq, _ = a.ReqMeltQuote("A", inv.Bolt11, 0)
				if lq == nil {
					prepOK = false
					return
				}
				ins = m.TakeFor("A", lq.Amount+lq.Reserve)
				if ins == nil {
					prepOK = false
					return
				}
				valid = map[string]any{"quote": lq.ID, "inputs": proofsJ(ins)}
			case "checkstate":
				path = "/v1/checkstate"
				ps := m.pickProofs("A", 2)
				var Ys []any
				for _, p := range ps {
					Ys = append(Ys, p.Y())
				}
				if len(Ys) == 0 {
					Ys = []any{hY("x")}
				}
				valid = map[string]any{"Ys": Ys}
			case "restore":
				path = "/v1/restore"
				o := W.NewOutputs([]uint64{1, 2}, ks.ID)
				valid = map[string]any{"outputs": outsJ(o)}
			}
		})
		if !prepOK {
			return
		}
		rc.Op(op)
		nm := 1 + T.Choose("nmut", 3)
		executed := false
		for k := 0; k < nm && !executed; k++ {
			mk := T.Choose("mut.kind", c06NumMut)
			if hasMut && k == 0 {
				mk = forcedMut
			}
			mu := mutate(T, valid, mk)
			before := snapshot()
			panicsBefore := len(W.Net.Panics)
			var r *Resp
			rc.S.BeginEpisode()
			rc.S.Run1(fmt.Sprintf("s%d.m%d", i, k), W.Ext, func() {
				r = a.do("POST", "A", path, mu.Body, mu.CType)
			})
			rc.S.Probe("c06_mutant_" + op)
			rc.S.Probe(fmt.Sprintf("c06_mutkind_%d", mk))
			fp := op + "|" + strings.Fields(mu.Desc)[0]
			if len(W.Net.Panics) > panicsBefore {
				W.Book.Violate("C06.panic", fp, "%s mutant [%s] made the handler panic: %s", op, mu.Desc, cut(W.Net.Panics[len(W.Net.Panics)-1], 300))
			}
			if r.OK() {
				// the mutant happened to be a valid request: an executed operation
				executed = true
				rc.S.Probe("c06_mutant_accepted")
				break
			}
			after := snapshot()
			if after != before {
				W.Book.Violate("C06.changed_state", fp, "%s mutant [%s] was answered %v but changed state: %s", op, mu.Desc, r, diffDump(before, after))
			}
			rc.Nontrivial = true
		}
		if executed {
			// beliefs: inputs of an accepted mutant are gone
			if ins != nil {
				m.User.remove("A", ins)
			}
			return
		}
		// the corrected (original) request must now succeed
		var r *Resp
		rc.S.BeginEpisode()
		rc.S.Run1(fmt.Sprintf("s%d.valid", i), W.Ext, func() {
			r = a.Post("A", path, valid)
		})
		if !r.OK() {
			W.Book.Violate("C06.valid_rejected", op, "valid %s request rejected after rejected mutants: %v", op, r)
			return
		}
		switch op {
		case "swap":
			sigs, _ := r.Body["signatures"].([]any)
			ps := W.Unblind("A", outs, sigs)
			m.User.remove("A", ins)
			m.Spent["A"] = append(m.Spent["A"], ins...)
			m.User.Purse["A"] = append(m.User.Purse["A"], ps...)
		case "mint":
			sigs, _ := r.Body["signatures"].([]any)
			ps := W.Unblind("A", outs, sigs)
			m.User.Purse["A"] = append(m.User.Purse["A"], ps...)
		case "melt":
			m.afterMelt("A", lq, ins, r)
		}
	})
	// whatever else happened in this run: no request made a handler panic
	if n := len(W.Net.Panics); n > 0 && !W.Book.HasViolation("C06.panic") {
		W.Book.Violate("C06.panic", "any", "%d handler panic(s) in this run, last: %s", n, cut(W.Net.Panics[n-1], 300))
	}
	m.Finale()
}
