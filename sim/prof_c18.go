package sim

// C18 — send hands over exactly the requested amount, fees included when asked.

func init() {
	Register(&Profile{Prop: "C18", Fatal: []string{"C18."}, Run: runC18, Core: coreC18})
}

var c18Fees = []uint{0, 100, 250, 500, 1000, 2000}

func coreC18(tier string) []RunSpec {
	var out []RunSpec
	for fi := range c18Fees {
		for rot := 0; rot < 2; rot++ {
			for k := 0; k < 2; k++ {
				out = append(out, RunSpec{Profile: "core:sends", Params: map[string]int{"fee": fi, "rot": rot, "k": k, "rst": 0}})
			}
			// the sending wallets are restored from their seed (new directory, program started on it) first
			out = append(out, RunSpec{Profile: "core:sends-after-restore", Params: map[string]int{"fee": fi, "rot": rot, "k": 0, "rst": 1}})
		}
	}
	// old-keyset proofs cover the amount but not their own fees, the active keyset holds the rest
	for _, fi := range []int{1, 2, 3, 4, 5} {
		for k := 0; k < 2; k++ {
			out = append(out, RunSpec{Profile: "core:inactive-keyset-covers-amount-not-fees", Params: map[string]int{"fee": fi, "inact": 1, "k": k + 2*(fi%2)}})
		}
	}
	return out
}

func runC18(rc *RunCtx) {
	T := rc.T
	fi := rc.P("fee", -1)
	if fi < 0 {
		fi = T.Choose("cfg.fee", len(c18Fees))
	}
	ww := rc.NewWalletWorld(LNConfig{FeePolicy: 1}, []uint{c18Fees[fi]}, 2)
	ww.NoFaults = true
	ww.Strict = true
	// random multiset of denominations: several mints of odd amounts
	n := 1 + T.Choose("cfg.nmints", 3)
	for i := 0; i < n; i++ {
		ww.step = -1 - i
		ww.StepMint()
	}
	if rc.P("inact", 0) == 1 {
		// the wallet holds proofs of the rotated-out keyset worth the amount but not the amount plus
		// their fees, beside plenty on the active keyset: the send is within the bound and must succeed
		w := ww.Wallets[0]
		old := []uint64{8, 12, 5, 16}[rc.P("k", 0)%4]
		ww.mintInto(w, old)
		ww.StepRotate([]uint64{uint64(c18Fees[fi])})
		ww.mintInto(w, 64)
		for i, fs := range []forcedSend{{w, old, true}, {w, old - 1, true}, {w, old, false}, {w, old + 1, true}} {
			ww.step = i
			f := fs
			ww.forceSend = &f
			if tok := ww.StepSend(); tok != nil {
				ww.StepReceive()
			}
			ww.forceSend = nil
			ww.CheckWallets("step")
			ww.mintInto(w, old)
		}
		rc.S.Probe("c18_inactive_keyset_covers_amount_not_fees")
		rc.Nontrivial = true
		return
	}
	rot := rc.P("rot", -1)
	if rot < 0 {
		rot = T.Choose("cfg.rot", 2)
	}
	if rot == 1 {
		fees := make([]uint64, len(c18Fees))
		for i, f := range c18Fees {
			fees[i] = uint64(f)
		}
		ww.StepRotate(fees)
		ww.StepMint()
	}
	rst := rc.P("rst", -1)
	if rst < 0 {
		rst = 0
		if T.Chance("cfg.restore", 1, 3) {
			rst = 1
		}
	}
	if rst == 1 {
		for _, w := range append([]string{}, ww.Wallets...) {
			ww.restoreWallet(w, true, "c18")
		}
		rc.S.Probe("c18_sends_after_restore")
	}
	rc.StepLoop(3, 16, func(i int) {
		ww.step = i
		switch T.Pick("step.kind", 6, 4, 1, 1, 1) {
		case 4:
			ww.StepReload()
		case 0:
			if tok := ww.StepSend(); tok != nil && T.Chance("recv.now", 2, 3) {
				ww.StepReceive()
			}
		case 1:
			ww.StepReceive()
		case 2:
			ww.StepMint()
		case 3:
			ww.StepReclaim()
		}
		ww.CheckWallets("step")
	})
}
