package sim

// C18 — send hands over exactly the requested amount, fees included when asked.

func init() {
	Register(&Profile{Prop: "C18", Fatal: []string{"C18."}, Run: runC18, Core: coreC18})
}

var c18Fees = []uint{0, 100, 250, 500, 1000, 2000}

func coreC18(tier string) []RunSpec {
	var out []RunSpec
	for fi := range c18Fees {
		for rot := 0; rot < 2; rot++ {
			for k := 0; k < 2; k++ {
				out = append(out, RunSpec{Profile: "core:sends", Params: map[string]int{"fee": fi, "rot": rot, "k": k, "rst": 0}})
			}
			// the sending wallets are restored from their seed (new directory, program started on it) first
			out = append(out, RunSpec{Profile: "core:sends-after-restore", Params: map[string]int{"fee": fi, "rot": rot, "k": 0, "rst": 1}})
		}
	}
	return out
}

func runC18(rc *RunCtx) {
	T := rc.T
	fi := rc.P("fee", -1)
	if fi < 0 {
		fi = T.Choose("cfg.fee", len(c18Fees))
	}
	ww := rc.NewWalletWorld(LNConfig{FeePolicy: 1}, []uint{c18Fees[fi]}, 2)
	ww.NoFaults = true
	ww.Strict = true
	// random multiset of denominations: several mints of odd amounts
	n := 1 + T.Choose("cfg.nmints", 3)
	for i := 0; i < n; i++ {
		ww.step = -1 - i
		ww.StepMint()
	}
	rot := rc.P("rot", -1)
	if rot < 0 {
		rot = T.Choose("cfg.rot", 2)
	}
	if rot == 1 {
		fees := make([]uint64, len(c18Fees))
		for i, f := range c18Fees {
			fees[i] = uint64(f)
		}
		ww.StepRotate(fees)
		ww.StepMint()
	}
	rst := rc.P("rst", -1)
	if rst < 0 {
		rst = 0
		if T.Chance("cfg.restore", 1, 3) {
			rst = 1
		}
	}
	if rst == 1 {
		for _, w := range append([]string{}, ww.Wallets...) {
			ww.restoreWallet(w, true, "c18")
		}
		rc.S.Probe("c18_sends_after_restore")
	}
	rc.StepLoop(3, 16, func(i int) {
		ww.step = i
		switch T.Pick("step.kind", 6, 4, 1, 1, 1) {
		case 4:
			ww.StepReload()
		case 0:
			if tok := ww.StepSend(); tok != nil && T.Chance("recv.now", 2, 3) {
				ww.StepReceive()
			}
		case 1:
			ww.StepReceive()
		case 2:
			ww.StepMint()
		case 3:
			ww.StepReclaim()
		}
		ww.CheckWallets("step")
	})
}
