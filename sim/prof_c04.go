package sim

import (
	"crypto/sha256"
	"encoding/hex"
	"encoding/json"
	"fmt"
	"github.com/decred/dcrd/dcrec/secp256k1/v4"
	"strings"
)

// C04 — only genuine mint signatures are honoured, at exactly their signed amount.
// The simulator contributes state (unspent/pending/spent), the keyset lifecycle
// (rotations, restarts re-deriving keys) and read faults during verification; the
// mutation grammar rides on the tape.

func init() {
	Register(&Profile{Prop: "C04", Fatal: []string{"C04."}, Run: runC04, Core: coreC04})
}

const c04NumMut = 24

func coreC04(tier string) []RunSpec {
	var out []RunSpec
	for mk := 0; mk < c04NumMut; mk++ {
		for via := 0; via < 2; via++ {
			for rot := 0; rot < 3; rot++ { // 0 none, 1 restart with rotation, 2 interrupted rotation + restart
				out = append(out, RunSpec{Profile: "core:forge", Params: map[string]int{"mut": mk, "via": via, "rot": rot}})
			}
		}
	}
	// the mutated proof behind eight or more genuine inputs
	for mk := 0; mk < c04NumMut; mk += 3 {
		for via := 0; via < 2; via++ {
			out = append(out, RunSpec{Profile: "core:forge-behind-many", Params: map[string]int{"mut": mk, "via": via, "rot": 0, "many": 1}})
		}
	}
	// coordinated forgeries over two inputs under one key
	for v := 0; v < 3; v++ {
		for via := 0; via < 2; via++ {
			out = append(out, RunSpec{Profile: "core:forge-pair", Params: map[string]int{"pair": v, "via": via, "rot": 0}})
		}
	}
	return out
}

// StepForge: take a valid unspent proof, mutate one field, present it.
func (m *MW) StepForge(forceMut, forceVia int) {
	mint := m.pickMint()
	base := m.pickProofs(mint, 1)
	if base == nil {
		m.StepFund()
		return
	}
	p := base[0]
	if m.Locks && m.T.Chance("forge.lockedbase", 1, 3) {
		// mutate a proof that carries a (valid) witness: the witness stays valid under every
		// mutation that leaves the secret alone
		for _, x := range m.User.Purse[mint] {
			if x.Witness != "" {
				p, base = x, []*HProof{x}
				m.rc.S.Probe("c04_locked_base")
				break
			}
		}
	}
	mk := m.T.Choose("forge.mut", c04NumMut)
	if forceMut >= 0 {
		mk = forceMut
	}
	via := m.T.Choose("forge.via", 2)
	if forceVia >= 0 {
		via = forceVia
	}
	mb := m.W.Book.Mint(mint)
	ks := m.W.ActiveKeyset(mint)
	pj := p.J()
	desc := ""
	switch mk {
	case 0: // amount to another denomination (up)
		pj["amount"] = p.Amount * 2
		desc = "amount*2"
	case 1: // amount to another denomination (down)
		if p.Amount > 1 {
			pj["amount"] = p.Amount / 2
		} else {
			pj["amount"] = uint64(4)
		}
		desc = "amount/2"
	case 2: // amount that is not a key of the keyset (no power of two), in several relations to the signed amount
		a := p.Amount
		cand := []uint64{a * 3, a + 3, a * 5, a * 7, a + 1<<50, a*2 + a/2 + 1, a | 1<<61}
		ci := m.T.Choose("forge.nondenom", len(cand))
		if forceMut >= 0 {
			ci = (m.step/2 + via) % len(cand) // core scenarios walk through the candidates
		}
		v := cand[ci]
		if v&(v-1) == 0 { // happens to be a power of two (or 0)
			v = a * 3
		}
		pj["amount"] = v
		desc = "amount non-denomination"
	case 3: // id to another known keyset
		desc = "id other keyset"
		other := ""
		for id := range mb.Keysets {
			if id != p.ID && (other == "" || id < other) {
				other = id
			}
		}
		if other == "" {
			other = "00ffffffffffffff"
			desc = "id unknown keyset"
		}
		pj["id"] = other
	case 4:
		pj["id"] = "00ffffffffffffff"
		desc = "id unknown keyset"
	case 5: // bit flip in C
		b, _ := hex.DecodeString(p.C)
		bit := m.T.Choose("forge.bit", len(b)*8)
		b[bit/8] ^= 1 << uint(bit%8)
		pj["C"] = hex.EncodeToString(b)
		desc = "C bitflip"
	case 6: // C of another proof
		if o := m.pickProofs(mint, 2); len(o) == 2 {
			if o[0] != p {
				pj["C"] = o[0].C
			} else {
				pj["C"] = o[1].C
			}
		} else {
			pj["C"] = pointHex(mulG(randScalar()))
		}
		desc = "C of another proof"
	case 7: // secret edit
		pj["secret"] = p.Secret + "0"
		desc = "secret appended"
	case 8:
		pj["secret"] = strings.ToUpper(p.Secret)
		if strings.ToUpper(p.Secret) == p.Secret {
			pj["secret"] = p.Secret + " "
		}
		desc = "secret case"
	case 9: // oversize secret (513 bytes)
		pj["secret"] = strings.Repeat("a", 513)
		desc = "secret 513 bytes"
	case 10: // malformed point: wrong length
		pj["C"] = p.C[:64]
		desc = "C short"
	case 11: // malformed point: non-hex
		pj["C"] = "zz" + p.C[2:]
		desc = "C non-hex"
	case 12: // x not on curve / wrong prefix
		pj["C"] = "05" + p.C[2:]
		desc = "C bad prefix"
	case 13: // forged from scratch: random point, random secret
		pj["secret"] = randHex(32)
		pj["C"] = pointHex(mulG(randScalar()))
		desc = "forged random"
	case 14: // the blinded signature C_ instead of the unblinded C
		if sg := mb.Sigs[p.B_]; sg != nil {
			pj["C"] = sg.C_
		}
		desc = "C_ instead of C"
	case 15: // Y itself as C (k=1)
		pj["C"] = hY(p.Secret)
		desc = "C = Y"
	case 23: // another spelling of the proof's own keyset id: not the id of any keyset of the mint
		v := m.T.Choose("forge.idspell", 6)
		alt := []string{strings.ToUpper(p.ID), strings.ToUpper(p.ID[:8]) + p.ID[8:], p.ID + " ", " " + p.ID, "0x" + p.ID, p.ID + "\x00"}[v]
		if alt == p.ID {
			alt = p.ID + " "
		}
		pj["id"] = alt
		desc = fmt.Sprintf("id respelled %q", alt)
	case 22: // -C: the same x, the other y (parity byte of the compressed encoding flipped)
		if strings.HasPrefix(p.C, "02") {
			pj["C"] = "03" + p.C[2:]
		} else {
			pj["C"] = "02" + p.C[2:]
		}
		desc = "-C (parity byte flipped)"
	case 21: // the genuine point followed by characters that are not part of any point encoding
		pj["C"] = p.C + []string{"zz", "0", " ", "\n", "0x", "--", "g"}[m.T.Choose("forge.tail", 7)]
		desc = "C with a trailing non-point tail"
	case 19, 20:
		// a proof the mint really signed (it signs blindly) whose secret is longer than 512 BYTES:
		// 513 ASCII bytes (19), or multi-byte characters that are more than 512 bytes but fewer
		// than 512 characters (20)
		long := strings.Repeat("a", 513)
		desc = "genuine, secret 513 ASCII bytes"
		lockedLong := false
		kr := NewKeyRing(7)
		if mk == 20 {
			// ... also secrets that ARE well-formed NUT-10 JSON (an unknown kind; a P2PK lock with so many
			// co-signer keys that it exceeds the limit, presented with a valid witness)
			manyKeys := &LockCfg{Data: kr.PubHex(0), LockKey: 0, Pubkeys: []int{1, 2, 3, 4, 5, 6, 1, 2}, NSigs: 1}
			opts := []string{strings.Repeat("é", 300), strings.Repeat("a", 511) + "é", strings.Repeat("€", 171),
				`["note",{"nonce":"00","data":"` + strings.Repeat("x", 700) + `"}]`, manyKeys.Secret(kr)}
			oi := m.T.Choose("forge.mb", len(opts))
			if forceMut >= 0 {
				oi = (m.step/2 + via*2) % len(opts)
			}
			long = opts[oi]
			lockedLong = oi == 4
			desc = fmt.Sprintf("genuine, secret %d bytes in %d characters", len(long), len([]rune(long)))
			if len(long) <= 512 {
				long += strings.Repeat(" ", 513-len(long))
			}
		}
		var got *HProof
		m.rc.Quietly(func() {
			src := m.TakeFor(mint, 4)
			if src == nil {
				return
			}
			f := m.feeFor(mint, src)
			amts := Split(SumH(src) - f)
			outs := make([]*HOutput, len(amts))
			for k, x := range amts {
				sec := ""
				if k == len(amts)-1 {
					sec = long
				}
				outs[k] = m.W.NewOutput(x, ks.ID, sec)
			}
			ps, r := m.User.Swap(mint, src, outs)
			if !r.OK() || len(ps) == 0 {
				return
			}
			m.Spent[mint] = append(m.Spent[mint], src...)
			got = ps[len(ps)-1]
			m.User.remove(mint, []*HProof{got})
		})
		if got == nil {
			return
		}
		if lockedLong {
			wj, _ := json.Marshal(map[string]any{"signatures": []string{SignMsg(kr.Priv[0], []byte(got.Secret), 0)}})
			got.Witness = string(wj)
		}
		p, base = got, []*HProof{got}
		pj = got.J()
		p.Gone = true // not an honest spendable proof: no "still spendable" expectation
	case 16, 17, 18:
		// forged from scratch, but the secret is a spending condition the forger can satisfy: a
		// P2PK lock to its own key with a valid signature (16), a P2PK lock whose locktime has
		// passed and names no refund key (17), an HTLC with the right preimage (18). The lock being
		// satisfied says nothing about C.
		if m.W.LockRing == nil {
			m.W.LockRing = NewKeyRing(2)
		}
		kr := m.W.LockRing
		c := &LockCfg{NSigs: -1, LockKey: 0, Data: kr.PubHex(0)}
		wit := map[string]any{}
		switch mk {
		case 17:
			c.Locktime = 1
			desc = "forged, P2PK expired locktime without refund"
		case 18:
			pre := randHex(32)
			pb, _ := hex.DecodeString(pre)
			hh := sha256.Sum256(pb)
			c = &LockCfg{HTLC: true, NSigs: -1, Data: hex.EncodeToString(hh[:])}
			wit["preimage"] = pre
			wit["signatures"] = []string{}
			desc = "forged, HTLC with right preimage"
		default:
			desc = "forged, P2PK with valid witness"
		}
		secret := c.Secret(kr)
		if mk == 16 {
			wit["signatures"] = []string{SignMsg(kr.Priv[0], []byte(secret), 0)}
		}
		pj["secret"] = secret
		if len(wit) > 0 {
			wj, _ := json.Marshal(wit)
			pj["witness"] = string(wj)
		} else {
			delete(pj, "witness")
		}
		pj["C"] = pointHex(mulG(randScalar()))
	}
	var second *HProof
	if m.T.Chance("forge.second", 1, 3) {
		for _, x := range m.User.Purse[mint] {
			if x != p {
				second = x
				break
			}
		}
	}
	// ... or behind MANY genuine inputs (8 to 12 of them): the mutated proof is the last of a long list
	var many []*HProof
	if m.rc.P("many", 0) == 1 || m.T.Chance("forge.many", 1, 5) {
		want := 8 + m.T.Choose("forge.many.n", 5)
		for _, x := range m.User.Purse[mint] {
			if x != p && x.Witness == "" && len(many) < want {
				many = append(many, x)
			}
		}
		if len(many) < 8 {
			many = nil
		}
	}
	m.rc.Op("forge:" + desc)
	m.rc.S.Probe(fmt.Sprintf("c04_mut_%02d", mk))
	var r *Resp
	m.rc.S.BeginEpisode()
	m.rc.S.Run1(m.name("forge"), m.W.Ext, func() {
		amt, _ := pj["amount"].(uint64)
		if many != nil {
			all := append(append([]*HProof{}, many...), p)
			fee := m.feeFor(mint, all)
			tot := SumH(many) + amt
			outAmt := uint64(1)
			if tot > fee+1 && tot-fee < 1<<40 {
				outAmt = tot - fee
			}
			ins := []any{}
			for _, x := range many {
				ins = append(ins, x.J())
			}
			ins = append(ins, pj)
			m.rc.S.Probe("c04_forge_behind_many_inputs")
			if via == 0 {
				outs := m.W.NewOutputs(Split(outAmt), ks.ID)
				r = m.Atk.Post(mint, "/v1/swap", map[string]any{"inputs": ins, "outputs": outsJ(outs)})
				if r.OK() {
					sigs, _ := r.Body["signatures"].([]any)
					m.Atk.Purse[mint] = append(m.Atk.Purse[mint], m.W.Unblind(mint, outs, sigs)...)
					m.markSpent(mint, many)
				}
			} else {
				inv := m.W.LN.NewExternalInvoice(1000)
				if q, _ := m.Atk.ReqMeltQuote(mint, inv.Bolt11, 0); q != nil {
					r = m.Atk.Post(mint, "/v1/melt/bolt11", map[string]any{"quote": q.ID, "inputs": ins})
					if r.OK() {
						m.markSpent(mint, many)
					}
				}
			}
		} else if via == 0 && second != nil {
			// the mutated proof sits behind a genuine first input
			fee := m.feeFor(mint, []*HProof{second, p})
			tot := second.Amount + amt
			outAmt := uint64(1)
			if tot > fee+1 {
				outAmt = tot - fee
			}
			outs := m.W.NewOutputs(Split(outAmt), ks.ID)
			r = m.Atk.Post(mint, "/v1/swap", map[string]any{"inputs": []any{second.J(), pj}, "outputs": outsJ(outs)})
			if r.OK() {
				sigs, _ := r.Body["signatures"].([]any)
				m.Atk.Purse[mint] = append(m.Atk.Purse[mint], m.W.Unblind(mint, outs, sigs)...)
				m.markSpent(mint, []*HProof{second})
			}
			m.rc.S.Probe("c04_forge_second_position")
		} else if via == 0 {
			// swap for one sat less than claimed so that fees never matter
			fee := m.feeFor(mint, []*HProof{p})
			outAmt := uint64(1)
			if amt > fee+1 {
				outAmt = amt - fee
			}
			outs := m.W.NewOutputs(Split(outAmt), ks.ID)
			r = m.Atk.Post(mint, "/v1/swap", map[string]any{"inputs": []any{pj}, "outputs": outsJ(outs)})
			if r.OK() {
				sigs, _ := r.Body["signatures"].([]any)
				m.Atk.Purse[mint] = append(m.Atk.Purse[mint], m.W.Unblind(mint, outs, sigs)...)
			}
		} else {
			inv := m.W.LN.NewExternalInvoice(1000)
			q, _ := m.Atk.ReqMeltQuote(mint, inv.Bolt11, 0)
			if q != nil {
				r = m.Atk.Post(mint, "/v1/melt/bolt11", map[string]any{"quote": q.ID, "inputs": []any{pj}})
			}
		}
	})
	if r != nil && r.OK() && via == 0 {
		// Book already judged it (C04.forged_accepted). If the secret was unchanged the proof is gone.
		if pj["secret"] == p.Secret {
			m.markSpent(mint, base)
		}
	}
	m.rc.Nontrivial = true
	// the unmodified proof must still be accepted (a rejected forgery changes nothing)
	if !p.Gone && m.T.Chance("forge.checkorig", 1, 2) {
		m.checkStillSpendable(mint, base, "forge")
	}
}

// StepForgePair: a coordinated forgery over two inputs signed with the same key (same keyset, same
// amount): C1+D and C2-D for a point D. Each C is wrong, their sum is right - a verifier that checks
// inputs in aggregate per key would be satisfied. variant 0: D = G; 1: D = random point; 2: C1 and C2
// exchanged (each is a genuine signature, on the other secret).
func (m *MW) StepForgePair(variant, via int) {
	mint := m.pickMint()
	ks := m.W.ActiveKeyset(mint)
	var pair []*HProof
	m.rc.Quietly(func() {
		for i := 0; i < 2; i++ {
			if ps := m.User.Fund(mint, 4); len(ps) == 1 {
				pair = append(pair, ps[0])
			}
		}
	})
	if len(pair) != 2 || pair[0].ID != pair[1].ID || pair[0].Amount != pair[1].Amount {
		return
	}
	c1, e1 := parsePoint(pair[0].C)
	c2, e2 := parsePoint(pair[1].C)
	if e1 != nil || e2 != nil {
		return
	}
	var f1, f2 string
	switch variant {
	case 2:
		f1, f2 = pair[1].C, pair[0].C
	default:
		d := mulG(scalarFromBytes([]byte{1}))
		if variant == 1 {
			d = mulG(randScalar())
		}
		dj := jac(d)
		var nd Point
		nd.Set(&dj)
		nd.ToAffine()
		nd.Y.Negate(1).Normalize()
		j1, j2 := jac(c1), jac(c2)
		var s1, s2 Point
		secp256k1.AddNonConst(&j1, &dj, &s1)
		secp256k1.AddNonConst(&j2, &nd, &s2)
		f1, f2 = pointHex(fromJac(&s1)), pointHex(fromJac(&s2))
	}
	m.rc.Op(fmt.Sprintf("forge-pair variant=%d via=%d", variant, via))
	m.rc.S.Probe("c04_forge_pair")
	j1, j2 := pair[0].J(), pair[1].J()
	j1["C"], j2["C"] = f1, f2
	var r *Resp
	m.rc.S.BeginEpisode()
	m.rc.S.Run1(m.name("forgepair"), m.W.Ext, func() {
		if via == 0 {
			fee := m.feeFor(mint, pair)
			outs := m.W.NewOutputs(Split(SumH(pair)-fee), ks.ID)
			r = m.Atk.Post(mint, "/v1/swap", map[string]any{"inputs": []any{j1, j2}, "outputs": outsJ(outs)})
			if r.OK() {
				sigs, _ := r.Body["signatures"].([]any)
				m.Atk.Purse[mint] = append(m.Atk.Purse[mint], m.W.Unblind(mint, outs, sigs)...)
			}
		} else {
			inv := m.W.LN.NewExternalInvoice(2000)
			if q, _ := m.Atk.ReqMeltQuote(mint, inv.Bolt11, 0); q != nil {
				r = m.Atk.Post(mint, "/v1/melt/bolt11", map[string]any{"quote": q.ID, "inputs": []any{j1, j2}})
			}
		}
	})
	if r != nil && r.OK() {
		// the Book has judged it (C04.forged_accepted); the secrets are gone
		m.markSpent(mint, pair)
		return
	}
	m.rc.Nontrivial = true
	// a rejected forgery changes nothing: the genuine pair is still accepted
	m.checkStillSpendable(mint, pair, "forge-pair")
}

func runC04(rc *RunCtx) {
	T := rc.T
	fees := []uint64{0, 100, 1000}
	fee := fees[T.Choose("cfg.fee", 3)]
	ln := LNConfig{FeePolicy: T.Choose("cfg.feepol", 3)}
	rc.NewMintWorld(ln, MintOpts{Fee: uint(fee)})
	rc.W.CheckGenuine = true
	m := NewMW(rc, "A")
	m.Strict = true
	m.Locks = true
	m.Fees = map[string][]uint64{"A": fees}
	rc.Quietly(func() { m.User.Fund("A", 255); m.User.Fund("A", 127) })
	forceMut, forceVia := rc.P("mut", -1), rc.P("via", -1)
	if rc.P("rot", 0) == 1 {
		m.StepRestart(true)
		rc.Quietly(func() { m.User.Fund("A", 63) })
	}
	// weights:       fund swap melt resolve replay dup race checkstate restore restart clock adv internal rotate
	weights := []int{1, 3, 2, 0, 1, 1, 0, 0, 0, 2, 0, 1, 0, 1}
	if rc.P("rot", 0) == 2 {
		m.StepRotateInterrupted()
		m.StepFund() // an ordinary step, not harness setup: a refusal is the mint's doing
	}
	rc.StepLoop(2, 12, func(i int) {
		m.step = i
		if rc.P("rot", 0) == 0 && T.Chance("irot", 1, 10) {
			// the key material of every keyset must survive an interrupted rotation + restart
			m.StepRotateInterrupted()
			return
		}
		if fp := rc.P("pair", -1); fp >= 0 || (forceMut < 0 && T.Chance("forge.pair", 1, 8)) {
			if fp < 0 {
				fp = T.Choose("forge.pair.variant", 3)
			}
			via := forceVia
			if via < 0 {
				via = T.Choose("forge.pair.via", 2)
			}
			m.StepForgePair(fp, via)
			return
		}
		if i%2 == 0 || T.Chance("forge", 1, 2) {
			m.StepForge(forceMut, forceVia)
		} else {
			m.Step(T.Pick("step.kind", weights...), true)
		}
	})
	m.Finale()
}
