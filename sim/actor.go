package sim

import (
	"bytes"
	"crypto/rand"
	"crypto/sha256"
	"encoding/hex"
	"encoding/json"
	"fmt"
	"github.com/decred/dcrd/dcrec/secp256k1/v4"
	gcrypto "github.com/elnosh/gonuts/crypto"
	"io"
	"net/http"
	"sort"
	"strings"

	"github.com/btcsuite/btcd/btcec/v2"
	"github.com/btcsuite/btcd/btcec/v2/schnorr"
)

// Raw, hand-built protocol client used by honest users, attackers and auditors at
// mint level. It never uses gonuts request/response types (DESIGN.md §4.2).

type HOutput struct {
	Amount  uint64
	ID      string
	B_      string
	Secret  string
	R       *Scalar
	Witness string
	// ProofWitness: for an output with a P2PK/HTLC secret (SIG_INPUTS), the witness that unlocks
	// the resulting proof; copied to HProof.Witness by Unblind.
	ProofWitness string
}

func (o *HOutput) J() map[string]any {
	m := map[string]any{"amount": o.Amount, "id": o.ID, "B_": o.B_}
	if o.Witness != "" {
		m["witness"] = o.Witness
	}
	return m
}

type HProof struct {
	Amount  uint64
	ID      string
	Secret  string
	C       string
	Witness string
	R       *Scalar
	B_      string
	E, S    string
	Mint    string
	Gone    bool // harness belief: consumed or locked
}

func (p *HProof) J() map[string]any {
	m := map[string]any{"amount": p.Amount, "id": p.ID, "secret": p.Secret, "C": p.C}
	if p.Witness != "" {
		m["witness"] = p.Witness
	}
	return m
}

func (p *HProof) Y() string { return hY(p.Secret) }

type Resp struct {
	Status int
	Code   int
	Detail string
	Body   map[string]any
	Raw    []byte
	Err    error
}

func (r *Resp) OK() bool { return r.Err == nil && r.Status == 200 }

func (r *Resp) String() string {
	if r.Err != nil {
		return "ERR " + r.Err.Error()
	}
	if r.Status == 200 {
		return "200"
	}
	return fmt.Sprintf("%d code=%d %q", r.Status, r.Code, r.Detail)
}

type Actor struct {
	W     *World
	Name  string
	Purse map[string][]*HProof // by mint name: proofs believed spendable
}

func NewActor(w *World, name string) *Actor {
	return &Actor{W: w, Name: name, Purse: map[string][]*HProof{}}
}

// do sends raw bytes.
func (a *Actor) do(method, mint, path string, body []byte, ctype string) *Resp {
	var rd io.Reader
	if body != nil {
		rd = bytes.NewReader(body)
	}
	req, err := http.NewRequest(method, "http://"+mint+path, rd)
	if err != nil {
		return &Resp{Err: err}
	}
	if ctype != "" {
		req.Header.Set("Content-Type", ctype)
	}
	hr, err := http.DefaultClient.Do(req)
	if err != nil {
		return &Resp{Err: err}
	}
	raw, _ := io.ReadAll(hr.Body)
	hr.Body.Close()
	r := &Resp{Status: hr.StatusCode, Raw: raw}
	json.Unmarshal(raw, &r.Body)
	if r.Status != 200 && r.Body != nil {
		if c, ok := r.Body["code"].(float64); ok {
			r.Code = int(c)
		}
		r.Detail, _ = r.Body["detail"].(string)
	}
	return r
}

func (a *Actor) Post(mint, path string, v any) *Resp {
	b, err := json.Marshal(v)
	if err != nil {
		harnessf("marshal: %v", err)
	}
	return a.do("POST", mint, path, b, "application/json")
}

func (a *Actor) Get(mint, path string) *Resp { return a.do("GET", mint, path, nil, "") }

// ---- keysets ----

// RefreshKeysets (driver or task) learns ids/keys/active flags through the public API.
// newFee is what the operator configured for any keyset that appears for the first time.
func (w *World) RefreshKeysets(mint string, newFee uint64) []string {
	a := NewActor(w, "keys")
	mb := w.Book.Mint(mint)
	r := a.Get(mint, "/v1/keysets")
	if !r.OK() {
		harnessf("GET /v1/keysets: %v", r)
	}
	var fresh []string
	list, _ := r.Body["keysets"].([]any)
	for _, it := range list {
		km, _ := it.(map[string]any)
		id, _ := km["id"].(string)
		active, _ := km["active"].(bool)
		ks := mb.Keysets[id]
		if ks == nil {
			ks = &KeysetInfo{ID: id, Fee: newFee, FeeOK: true}
			mb.Keysets[id] = ks
			fresh = append(fresh, id)
			kr := a.Get(mint, "/v1/keys/"+id)
			if !kr.OK() {
				harnessf("GET /v1/keys/%s: %v", id, kr)
			}
			ks.Keys = map[uint64]string{}
			if arr, ok := kr.Body["keysets"].([]any); ok && len(arr) > 0 {
				if k0, ok := arr[0].(map[string]any); ok {
					if keys, ok := k0["keys"].(map[string]any); ok {
						for amt, v := range keys {
							var n uint64
							fmt.Sscan(amt, &n)
							ks.Keys[n], _ = v.(string)
						}
					}
				}
			}
		}
		ks.Active = active
	}
	return fresh
}

func (w *World) ActiveKeyset(mint string) *KeysetInfo {
	mb := w.Book.Mint(mint)
	ids := make([]string, 0, len(mb.Keysets))
	for id := range mb.Keysets {
		ids = append(ids, id)
	}
	sort.Strings(ids)
	for _, id := range ids {
		if mb.Keysets[id].Active {
			return mb.Keysets[id]
		}
	}
	return nil
}

// ---- outputs / proofs ----

func randScalar() *Scalar {
	for {
		var b [32]byte
		rand.Read(b[:])
		var s Scalar
		if !s.SetByteSlice(b[:]) && !s.IsZero() {
			return &s
		}
	}
}

func randHex(n int) string {
	b := make([]byte, n)
	rand.Read(b)
	return hex.EncodeToString(b)
}

func Split(amount uint64) []uint64 {
	var out []uint64
	for i := 0; amount > 0; i++ {
		if amount&1 == 1 {
			out = append(out, 1<<uint(i))
		}
		amount >>= 1
	}
	return out
}

// SplitKeyed splits amount into denominations the keysets really have keys for (2^0 .. 2^59):
// everything above 2^59 is made of several 2^59 outputs.
func SplitKeyed(amount uint64) []uint64 {
	var out []uint64
	const top = uint64(1) << 59
	for amount >= top {
		out = append(out, top)
		amount -= top
	}
	return append(out, Split(amount)...)
}

func (w *World) NewOutput(amount uint64, id, secret string) *HOutput {
	if secret == "" {
		secret = randHex(32)
	}
	r := randScalar()
	B_, err := hBlind(secret, r)
	if err != nil {
		harnessf("blind: %v", err)
	}
	if plain := len(secret) == 64; plain && w.RespellPct > 0 && !w.S.Quiet && w.S.Tape.Chance("out.respell", w.RespellPct, 100) {
		// another encoding of the same point, as a foreign wallet implementation might send it
		B_ = respellPoint(B_, w.S.Tape.Choose("out.respell.kind", 3))
		w.S.Probe("output_point_respelled")
	}
	o := &HOutput{Amount: amount, ID: id, B_: B_, Secret: secret, R: r}
	w.Outputs[B_] = o
	w.OutOrder = append(w.OutOrder, B_)
	return o
}

// respellPoint: the same curve point in another accepted spelling: upper-case hex (0), uncompressed
// SEC1 encoding (1), upper-case prefix-preserving mixed case (2).
func respellPoint(h string, v int) string {
	b, err := hex.DecodeString(h)
	if err != nil {
		return h
	}
	switch v {
	case 0:
		return strings.ToUpper(h)
	case 1:
		if pk, err := btcec.ParsePubKey(b); err == nil {
			return hex.EncodeToString(pk.SerializeUncompressed())
		}
		return h
	}
	return h[:2] + strings.ToUpper(h[2:34]) + h[34:]
}

// NewLockedOutputs: outputs whose secrets are NUT-10 spending conditions (P2PK, or HTLC when htlc)
// with SIG_INPUTS semantics, together with the witness that will unlock each resulting proof.
func (w *World) NewLockedOutputs(amounts []uint64, id string, htlc bool) []*HOutput {
	return w.newLockedOutputs(amounts, id, htlc, "")
}

// NewSigAllOutputs: P2PK secrets with SIG_ALL (spendable only by a swap whose outputs are signed).
func (w *World) NewSigAllOutputs(amounts []uint64, id string) []*HOutput {
	return w.newLockedOutputs(amounts, id, false, "SIG_ALL")
}

// SignOutputsSigAll signs swap outputs with the key of NewSigAllOutputs.
func (w *World) SignOutputsSigAll(outs []*HOutput) {
	for _, o := range outs {
		bb, _ := hex.DecodeString(o.B_)
		wj, _ := json.Marshal(map[string]any{"signatures": []string{SignMsg(w.LockRing.Priv[0], bb, 0)}})
		o.Witness = string(wj)
	}
}

func (w *World) newLockedOutputs(amounts []uint64, id string, htlc bool, sigflag string) []*HOutput {
	if w.LockRing == nil {
		w.LockRing = NewKeyRing(2)
	}
	outs := make([]*HOutput, len(amounts))
	for i, a := range amounts {
		c := &LockCfg{NSigs: -1, LockKey: 0, Data: w.LockRing.PubHex(0), SigFlag: sigflag}
		pre := ""
		if htlc {
			pre = randHex(32)
			pb, _ := hex.DecodeString(pre)
			h := sha256.Sum256(pb)
			c = &LockCfg{HTLC: true, NSigs: -1, Data: hex.EncodeToString(h[:]), Pubkeys: []int{1}}
			c.NSigs = 1
		}
		secret := c.Secret(w.LockRing)
		o := w.NewOutput(a, id, secret)
		if htlc {
			wj, _ := json.Marshal(map[string]any{"preimage": pre, "signatures": []string{SignMsg(w.LockRing.Priv[1], []byte(secret), 0)}})
			o.ProofWitness = string(wj)
		} else {
			wj, _ := json.Marshal(map[string]any{"signatures": []string{SignMsg(w.LockRing.Priv[0], []byte(secret), 0)}})
			o.ProofWitness = string(wj)
		}
		outs[i] = o
	}
	return outs
}

func (w *World) NewOutputs(amounts []uint64, id string) []*HOutput {
	outs := make([]*HOutput, len(amounts))
	for i, a := range amounts {
		outs[i] = w.NewOutput(a, id, "")
	}
	return outs
}

func outsJ(outs []*HOutput) []any {
	j := make([]any, len(outs))
	for i, o := range outs {
		j[i] = o.J()
	}
	return j
}

func proofsJ(ps []*HProof) []any {
	j := make([]any, len(ps))
	for i, p := range ps {
		j[i] = p.J()
	}
	return j
}

// Unblind builds proofs from a signatures array (generic JSON) matched to outs by position.
func (w *World) Unblind(mint string, outs []*HOutput, sigs []any) []*HProof {
	mb := w.Book.Mint(mint)
	var ps []*HProof
	for i, sv := range sigs {
		if i >= len(outs) {
			break
		}
		sm, _ := sv.(map[string]any)
		id, _ := sm["id"].(string)
		amtf, _ := sm["amount"].(float64)
		C_, _ := sm["C_"].(string)
		ks := mb.Keysets[id]
		if ks == nil {
			continue
		}
		K, err := parsePoint(ks.Keys[uint64(amtf)])
		if err != nil {
			continue
		}
		C, err := hUnblind(C_, outs[i].R, K)
		if err != nil {
			continue
		}
		// C10, on every value that arises: the library's own unblinding gives the same point, gives
		// it again when called again with the same blinding-factor object, and leaves that object alone
		if cp, e := parsePoint(C_); e == nil && outs[i].R != nil {
			rb := outs[i].R.Bytes()
			rPriv := secp256k1.PrivKeyFromBytes(rb[:])
			c1 := pointHex(gcrypto.UnblindSignature(cp, rPriv, K))
			c2 := pointHex(gcrypto.UnblindSignature(cp, rPriv, K))
			after := rPriv.Key.Bytes()
			w.S.Stats["c10_lib_unblind_checked"]++
			if c1 != C || c2 != C || after != rb {
				w.Book.Violate("C10.lib_unblind", "unblind", "crypto.UnblindSignature disagrees with the independent unblinding or is not repeatable: first %s second %s expected %s, blinding factor unchanged=%v", short(c1), short(c2), short(C), after == rb)
			}
		}
		p := &HProof{Amount: uint64(amtf), ID: id, Secret: outs[i].Secret, C: C, R: outs[i].R, B_: outs[i].B_, Mint: mint, Witness: outs[i].ProofWitness}
		if d, ok := sm["dleq"].(map[string]any); ok {
			p.E, _ = d["e"].(string)
			p.S, _ = d["s"].(string)
		}
		w.AllProofs = append(w.AllProofs, p)
		ps = append(ps, p)
	}
	return ps
}

// ---- protocol operations ----

type MintQuote struct {
	ID, Request, Hash string
	Amount            uint64
	Priv              *btcec.PrivateKey
}

func (a *Actor) ReqMintQuote(mint string, amount uint64, lock bool) (*MintQuote, *Resp) {
	body := map[string]any{"amount": amount, "unit": "sat"}
	var priv *btcec.PrivateKey
	if lock {
		var kb [32]byte
		rand.Read(kb[:])
		priv, _ = btcec.PrivKeyFromBytes(kb[:])
		body["pubkey"] = hex.EncodeToString(priv.PubKey().SerializeCompressed())
	}
	r := a.Post(mint, "/v1/mint/quote/bolt11", body)
	if !r.OK() {
		return nil, r
	}
	q := &MintQuote{Amount: amount, Priv: priv}
	q.ID, _ = r.Body["quote"].(string)
	q.Request, _ = r.Body["request"].(string)
	if mq := a.W.Book.Mint(mint).MQ[q.ID]; mq != nil {
		q.Hash = mq.Hash
	}
	return q, r
}

func SignNut20(priv *btcec.PrivateKey, quote string, outs []*HOutput) string {
	msg := quote
	for _, o := range outs {
		msg += o.B_
	}
	h := sha256.Sum256([]byte(msg))
	sig, err := schnorr.Sign(priv, h[:])
	if err != nil {
		harnessf("sign: %v", err)
	}
	return hex.EncodeToString(sig.Serialize())
}

// Mint submits outputs for a quote. sig "" = compute the right NUT-20 signature if the quote is locked.
func (a *Actor) Mint(mint string, q *MintQuote, outs []*HOutput, sig string) ([]*HProof, *Resp) {
	body := map[string]any{"quote": q.ID, "outputs": outsJ(outs)}
	if sig == "" && q.Priv != nil {
		sig = SignNut20(q.Priv, q.ID, outs)
	}
	if sig != "" {
		body["signature"] = sig
	}
	r := a.Post(mint, "/v1/mint/bolt11", body)
	if !r.OK() {
		return nil, r
	}
	sigs, _ := r.Body["signatures"].([]any)
	ps := a.W.Unblind(mint, outs, sigs)
	a.Purse[mint] = append(a.Purse[mint], ps...)
	return ps, r
}

func (a *Actor) Swap(mint string, ins []*HProof, outs []*HOutput) ([]*HProof, *Resp) {
	r := a.Post(mint, "/v1/swap", map[string]any{"inputs": proofsJ(ins), "outputs": outsJ(outs)})
	if !r.OK() {
		return nil, r
	}
	sigs, _ := r.Body["signatures"].([]any)
	ps := a.W.Unblind(mint, outs, sigs)
	a.remove(mint, ins)
	a.Purse[mint] = append(a.Purse[mint], ps...)
	return ps, r
}

func (a *Actor) remove(mint string, ins []*HProof) {
	gone := map[*HProof]bool{}
	for _, p := range ins {
		gone[p] = true
		p.Gone = true
	}
	k := a.Purse[mint][:0]
	for _, p := range a.Purse[mint] {
		if !gone[p] {
			k = append(k, p)
		}
	}
	a.Purse[mint] = k
}

type MeltQuote struct {
	ID, Request, Hash string
	Amount, Reserve   uint64
}

func (a *Actor) ReqMeltQuote(mint, request string, mppMsat uint64) (*MeltQuote, *Resp) {
	body := map[string]any{"request": request, "unit": "sat"}
	if mppMsat > 0 {
		body["options"] = map[string]any{"mpp": map[string]any{"amount": mppMsat}}
	}
	r := a.Post(mint, "/v1/melt/quote/bolt11", body)
	if !r.OK() {
		return nil, r
	}
	q := &MeltQuote{Request: request}
	q.ID, _ = r.Body["quote"].(string)
	if f, ok := r.Body["amount"].(float64); ok {
		q.Amount = uint64(f)
	}
	if f, ok := r.Body["fee_reserve"].(float64); ok {
		q.Reserve = uint64(f)
	}
	if lq := a.W.Book.Mint(mint).LQ[q.ID]; lq != nil {
		q.Hash = lq.Hash
	}
	return q, r
}

func (a *Actor) Melt(mint string, quote string, ins []*HProof) *Resp {
	r := a.Post(mint, "/v1/melt/bolt11", map[string]any{"quote": quote, "inputs": proofsJ(ins)})
	return r
}

func (a *Actor) CheckState(mint string, Ys []string) *Resp {
	return a.Post(mint, "/v1/checkstate", map[string]any{"Ys": Ys})
}

func (a *Actor) Restore(mint string, outs []*HOutput) *Resp {
	j := make([]any, len(outs))
	for i, o := range outs {
		j[i] = map[string]any{"amount": 0, "id": o.ID, "B_": o.B_}
	}
	return a.Post(mint, "/v1/restore", map[string]any{"outputs": j})
}

func (a *Actor) PollMintQuote(mint, id string) *Resp { return a.Get(mint, "/v1/mint/quote/bolt11/"+id) }
func (a *Actor) PollMeltQuote(mint, id string) *Resp { return a.Get(mint, "/v1/melt/quote/bolt11/"+id) }

func RespState(r *Resp) string {
	if r == nil || r.Body == nil {
		return ""
	}
	s, _ := r.Body["state"].(string)
	return s
}

// Take removes and returns proofs worth at least amount from the purse (smallest first); nil if insufficient.
func (a *Actor) Take(mint string, amount uint64) []*HProof {
	ps := append([]*HProof(nil), a.Purse[mint]...)
	sort.SliceStable(ps, func(i, j int) bool { return ps[i].Amount < ps[j].Amount })
	var sel []*HProof
	var sum uint64
	for _, p := range ps {
		if sum >= amount {
			break
		}
		sel = append(sel, p)
		sum += p.Amount
	}
	if sum < amount {
		return nil
	}
	return sel
}

func SumH(ps []*HProof) uint64 {
	var s uint64
	for _, p := range ps {
		s += p.Amount
	}
	return s
}

// Fund: honest path used in setup (driver, quiet): quote, external payment, mint.
func (a *Actor) Fund(mint string, amount uint64) []*HProof {
	q, r := a.ReqMintQuote(mint, amount, false)
	if q == nil {
		harnessf("fund: mint quote failed: %v", r)
	}
	if !a.W.LN.PayExternal(q.Hash) {
		harnessf("fund: could not pay invoice")
	}
	ks := a.W.ActiveKeyset(mint)
	outs := a.W.NewOutputs(Split(amount), ks.ID)
	ps, r := a.Mint(mint, q, outs, "")
	if !r.OK() {
		harnessf("fund: mint failed: %v", r)
	}
	return ps
}

func jsonMarshal(v any) ([]byte, error) { return json.Marshal(v) }
