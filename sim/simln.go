package sim

import (
	"context"
	"crypto/rand"
	"crypto/sha256"
	"encoding/hex"
	"errors"
	"fmt"
	"time"

	"github.com/btcsuite/btcd/chaincfg"
	"github.com/decred/dcrd/dcrec/secp256k1/v4"
	"github.com/decred/dcrd/dcrec/secp256k1/v4/ecdsa"
	"github.com/elnosh/gonuts/mint/lightning"
	"github.com/lightningnetwork/lnd/lnwire"
	"github.com/lightningnetwork/lnd/zpay32"
	decodepay "github.com/nbd-wtf/ln-decodepay"
)

// SimLN models the Lightning *network* shared by all simulated mints (DESIGN.md §4.1).

type payTruth int

const (
	ptNone payTruth = iota
	ptInflight
	ptSucceeded
	ptFailed
)

func (p payTruth) String() string {
	return [...]string{"none", "inflight", "succeeded", "failed"}[p]
}

type LNInvoice struct {
	Hash       string
	Preimage   string
	Bolt11     string
	AmountMsat uint64
	Owner      string // mint name or "ext"
	Settled    bool
	SettledSeq int
	PaidCount  int
	CreatedAt  int64
	subs       []*lnSub
}

type LNPayment struct {
	Mint         string
	Hash         string
	Bolt11       string
	AmountMsat   uint64 // amount this mint tries to send (partial for MPP)
	FeeLimitSat  uint64
	Partial      bool
	Truth        payTruth
	FeePaidMsat  uint64
	Attempts     int
	Seq          int
	WillResolve  payTruth // for inflight payments: the hidden final outcome
	LimitHistory []uint64
}

type LNLedger struct {
	InflowMsat  uint64 // settled invoices owned by the mint
	OutflowMsat uint64 // amount + fee actually charged for succeeded payments
}

// LNScript: scripted answers (C05). Pay is the answer to the pay call; Status
// answers are consumed in order by OutgoingPaymentStatus; when exhausted the
// backend answers truthfully.
type LNScript struct {
	Pay    string   // succeeded | pending | failed | error
	Status []string // notfound | error | failed | pending | succeeded
	pos    int
}

type LNConfig struct {
	FeePolicy     int  // 0: zero, 1: ceil 1%, 2: flat 2, 3: 1% + 1
	ChargeFull    bool // charge the entire fee limit on success (adversarial, C02)
	Watcher       bool // SubscribeInvoice works
	AmbiguousPct  int  // chance (percent) of an ambiguous status answer
	PayOutcomeMix int  // 0: always succeed immediately; 1: mixed outcomes from tape
	InvoiceErrPct int
	MaxInvoiceSat uint64 // CreateInvoice rejects larger amounts (0 = 2^53)
}

type LNNet struct {
	s        *Sim
	Cfg      LNConfig
	Invoices map[string]*LNInvoice
	Payments map[string]*LNPayment // key mint|hash
	PayOrder []string
	Ledger   map[string]*LNLedger
	Scripts  map[string]*LNScript // by payment hash
	// ForceNextPay: outcome of the next unscripted pay call (then cleared)
	ForceNextPay string
	nodeKey      *secp256k1.PrivateKey
	Calls        []LNCall
}

type LNCall struct {
	Seq    int
	Task   string
	Mint   string
	Method string
	Hash   string
	Arg    uint64
	Answer string
}

func NewLNNet(s *Sim, cfg LNConfig) *LNNet {
	var kb [32]byte
	for i := range kb {
		kb[i] = byte(i + 1)
	}
	return &LNNet{
		s: s, Cfg: cfg,
		Invoices: map[string]*LNInvoice{},
		Payments: map[string]*LNPayment{},
		Ledger:   map[string]*LNLedger{},
		Scripts:  map[string]*LNScript{},
		nodeKey:  secp256k1.PrivKeyFromBytes(kb[:]),
	}
}

func (n *LNNet) ledger(mint string) *LNLedger {
	l := n.Ledger[mint]
	if l == nil {
		l = &LNLedger{}
		n.Ledger[mint] = l
	}
	return l
}

func (n *LNNet) call(mint, method, hash string, arg uint64, answer string) {
	task := "driver"
	if t := n.s.CurrentTask(); t != nil {
		task = t.Name
	}
	n.Calls = append(n.Calls, LNCall{n.s.Seq(), task, mint, method, hash, arg, answer})
}

// newInvoice builds a real BOLT11 string. amountMsat 0 = amountless.
func (n *LNNet) newInvoice(owner string, amountMsat uint64, desc string) (*LNInvoice, error) {
	var pre [32]byte
	if _, err := rand.Read(pre[:]); err != nil {
		return nil, err
	}
	h := sha256.Sum256(pre[:])
	opts := []func(*zpay32.Invoice){zpay32.Description(desc), zpay32.Expiry(time.Hour)}
	if amountMsat > 0 {
		opts = append(opts, zpay32.Amount(lnwire.MilliSatoshi(amountMsat)))
	}
	inv, err := zpay32.NewInvoice(&chaincfg.SigNetParams, h, time.Now(), opts...)
	if err != nil {
		return nil, err
	}
	str, err := inv.Encode(zpay32.MessageSigner{SignCompact: func(msg []byte) ([]byte, error) {
		return ecdsa.SignCompact(n.nodeKey, msg, true), nil
	}})
	if err != nil {
		return nil, err
	}
	li := &LNInvoice{
		Hash: hex.EncodeToString(h[:]), Preimage: hex.EncodeToString(pre[:]), Bolt11: str,
		AmountMsat: amountMsat, Owner: owner, CreatedAt: time.Now().Unix(),
	}
	n.Invoices[li.Hash] = li
	return li, nil
}

// ForgeInvoiceWithHash: an attacker's own BOLT11 invoice (signed with its own node key) that reuses
// the payment hash of somebody else's invoice, for a different amount. Not registered anywhere:
// nobody who could settle it knows the preimage.
func (n *LNNet) ForgeInvoiceWithHash(hashHex string, amountMsat uint64) (string, error) {
	hb, err := hex.DecodeString(hashHex)
	if err != nil || len(hb) != 32 {
		return "", fmt.Errorf("bad hash")
	}
	var h [32]byte
	copy(h[:], hb)
	var kb [32]byte
	if _, err := rand.Read(kb[:]); err != nil {
		return "", err
	}
	key := secp256k1.PrivKeyFromBytes(kb[:])
	inv, err := zpay32.NewInvoice(&chaincfg.SigNetParams, h, time.Now(), zpay32.Description("forged"), zpay32.Expiry(time.Hour), zpay32.Amount(lnwire.MilliSatoshi(amountMsat)))
	if err != nil {
		return "", err
	}
	return inv.Encode(zpay32.MessageSigner{SignCompact: func(msg []byte) ([]byte, error) {
		return ecdsa.SignCompact(key, msg, true), nil
	}})
}

// NewExternalInvoice: an invoice of a merchant outside the system.
func (n *LNNet) NewExternalInvoice(amountMsat uint64) *LNInvoice {
	li, err := n.newInvoice("ext", amountMsat, "ext")
	if err != nil {
		harnessf("external invoice: %v", err)
	}
	return li
}

// PayExternal: the external payer pays an invoice of a simulated mint. A hash can
// be settled at most once, as on Lightning. Returns false if nothing was paid.
func (n *LNNet) PayExternal(hash string) bool {
	inv := n.Invoices[hash]
	if inv == nil || inv.Settled {
		return false
	}
	n.settle(inv)
	return true
}

func (n *LNNet) settle(inv *LNInvoice) {
	inv.Settled = true
	inv.PaidCount++
	inv.SettledSeq = n.s.Seq()
	if inv.Owner != "ext" {
		n.ledger(inv.Owner).InflowMsat += inv.AmountMsat
	}
	n.s.Log("ln", "", "settled "+inv.Owner+" "+short(inv.Hash))
}

// Notify delivers the pending "settled" notification to subscriptions of hash.
func (n *LNNet) Notify(hash string) int {
	inv := n.Invoices[hash]
	if inv == nil || !inv.Settled {
		return 0
	}
	c := 0
	for _, sub := range inv.subs {
		if !sub.notified {
			sub.notified = true
			sub.ch <- lightning.Invoice{PaymentRequest: inv.Bolt11, PaymentHash: inv.Hash, Preimage: inv.Preimage,
				Settled: true, Amount: inv.AmountMsat / 1000, Expiry: 3600}
			c++
		}
	}
	if c > 0 {
		n.s.Stats["ln_notify"] += c
	}
	return c
}

// PendingNotifications lists hashes with undelivered settle notifications.
func (n *LNNet) PendingNotifications() []string {
	var out []string
	for _, h := range n.sortedInvoiceHashes() {
		inv := n.Invoices[h]
		if !inv.Settled {
			continue
		}
		for _, sub := range inv.subs {
			if !sub.notified && sub.inc.Alive {
				out = append(out, h)
				break
			}
		}
	}
	return out
}

func (n *LNNet) sortedInvoiceHashes() []string {
	hs := make([]string, 0, len(n.Invoices))
	for h := range n.Invoices {
		hs = append(hs, h)
	}
	sortStrings(hs)
	return hs
}

// ResolveInflight lets an in-flight payment reach its final outcome.
func (n *LNNet) ResolveInflight(key string, succeed bool) {
	p := n.Payments[key]
	if p == nil || p.Truth != ptInflight {
		return
	}
	if succeed {
		n.succeed(p)
	} else {
		p.Truth = ptFailed
	}
	n.s.Log("ln", "", "resolved "+short(p.Hash)+" "+p.Truth.String())
}

func (n *LNNet) InflightKeys() []string {
	var out []string
	for _, k := range n.PayOrder {
		if n.Payments[k].Truth == ptInflight {
			out = append(out, k)
		}
	}
	return out
}

func (n *LNNet) succeed(p *LNPayment) {
	p.Truth = ptSucceeded
	fee := uint64(0)
	if n.Cfg.ChargeFull {
		fee = p.FeeLimitSat * 1000
	} else {
		pol := n.feePolicy(p.AmountMsat/1000) * 1000
		if pol > p.FeeLimitSat*1000 {
			pol = p.FeeLimitSat * 1000
		}
		fee = pol / 2
	}
	p.FeePaidMsat = fee
	n.ledger(p.Mint).OutflowMsat += p.AmountMsat + fee
	if inv := n.Invoices[p.Hash]; inv != nil && !inv.Settled {
		// single-part payments settle the invoice; a partial payment settles it only
		// when the parts add up (other parts are assumed to come from other mints)
		if !p.Partial || n.partsCover(inv) {
			n.settle(inv)
		}
	}
}

func (n *LNNet) partsCover(inv *LNInvoice) bool {
	var sum uint64
	for _, k := range n.PayOrder {
		p := n.Payments[k]
		if p.Hash == inv.Hash && p.Truth == ptSucceeded {
			sum += p.AmountMsat
		}
	}
	return sum >= inv.AmountMsat
}

func (n *LNNet) feePolicy(amountSat uint64) uint64 {
	switch n.Cfg.FeePolicy {
	case 1:
		return (amountSat + 99) / 100
	case 2:
		return 2
	case 3:
		return (amountSat+99)/100 + 1
	}
	return 0
}

// ---------------------------------------------------------------------------

// LNClient is the lightning.Client handed to one mint incarnation.
type LNClient struct {
	net  *LNNet
	mint string
	inc  *Inc
}

func (n *LNNet) Client(mint string, inc *Inc) *LNClient { return &LNClient{n, mint, inc} }

func (c *LNClient) ConnectionStatus() error { return nil }

var errLNInjected = errors.New("SIMFAULT-LN backend unavailable")

func (c *LNClient) CreateInvoice(amount uint64) (lightning.Invoice, error) {
	c.net.s.Yield(c.inc, "ln", "ln.CreateInvoice")
	max := c.net.Cfg.MaxInvoiceSat
	if max == 0 {
		max = 1 << 53
	}
	if amount > max {
		c.net.call(c.mint, "CreateInvoice", "", amount, "error:toolarge")
		return lightning.Invoice{}, errors.New("SIMFAULT-LN amount too large")
	}
	if !c.net.s.Quiet && c.net.Cfg.InvoiceErrPct > 0 && c.net.s.Tape.Chance("ln.invoice.err", c.net.Cfg.InvoiceErrPct, 100) {
		c.net.s.Stats["ln_invoice_err"]++
		c.net.call(c.mint, "CreateInvoice", "", amount, "error")
		return lightning.Invoice{}, errLNInjected
	}
	inv, err := c.net.newInvoice(c.mint, amount*1000, "mint")
	if err != nil {
		c.net.call(c.mint, "CreateInvoice", "", amount, "error:"+err.Error())
		return lightning.Invoice{}, err
	}
	c.net.call(c.mint, "CreateInvoice", inv.Hash, amount, "ok")
	return lightning.Invoice{PaymentRequest: inv.Bolt11, PaymentHash: inv.Hash, Amount: amount, Expiry: lightning.InvoiceExpiryTime}, nil
}

func (c *LNClient) InvoiceStatus(hash string) (lightning.Invoice, error) {
	c.net.s.Yield(c.inc, "ln", "ln.InvoiceStatus "+short(hash))
	inv := c.net.Invoices[hash]
	if inv == nil {
		c.net.call(c.mint, "InvoiceStatus", hash, 0, "error:unknown")
		return lightning.Invoice{}, errors.New("SIMFAULT-LN invoice does not exist")
	}
	if !c.net.s.Quiet && c.net.Cfg.AmbiguousPct > 0 && c.net.s.Tape.Chance("ln.invstatus.err", c.net.Cfg.AmbiguousPct, 100) {
		c.net.s.Stats["ln_invstatus_err"]++
		c.net.call(c.mint, "InvoiceStatus", hash, 0, "error")
		return lightning.Invoice{}, errLNInjected
	}
	ans := "unsettled"
	if inv.Settled {
		ans = "settled"
	}
	c.net.call(c.mint, "InvoiceStatus", hash, 0, ans)
	out := lightning.Invoice{PaymentRequest: inv.Bolt11, PaymentHash: inv.Hash, Settled: inv.Settled,
		Amount: inv.AmountMsat / 1000, Expiry: lightning.InvoiceExpiryTime}
	if inv.Settled || inv.Owner == c.mint {
		// the owner of an invoice knows its preimage (internal settlement reads it)
		out.Preimage = inv.Preimage
	}
	return out, nil
}

func (c *LNClient) pay(ctx context.Context, method, request string, amountMsat, maxFee uint64, partial bool) (lightning.PaymentStatus, error) {
	n := c.net
	n.s.Yield(c.inc, "ln", "ln."+method)
	bolt, err := decodepay.Decodepay(request)
	if err != nil {
		return lightning.PaymentStatus{PaymentStatus: lightning.Failed}, fmt.Errorf("SIMFAULT-LN bad invoice: %v", err)
	}
	if !partial {
		amountMsat = uint64(bolt.MSatoshi)
	}
	key := c.mint + "|" + bolt.PaymentHash
	p := n.Payments[key]
	if p == nil {
		p = &LNPayment{Mint: c.mint, Hash: bolt.PaymentHash, Bolt11: request, Seq: n.s.Seq()}
		n.Payments[key] = p
		n.PayOrder = append(n.PayOrder, key)
	}
	p.Attempts++
	p.LimitHistory = append(p.LimitHistory, maxFee)
	n.s.Stats["ln_pay_attempt"]++
	if p.Truth == ptSucceeded || p.Truth == ptInflight {
		// Lightning refuses a second payment of a hash that is paid or in flight
		n.call(c.mint, method, p.Hash, maxFee, "error:already "+p.Truth.String())
		return lightning.PaymentStatus{PaymentStatus: lightning.Failed}, errors.New("SIMFAULT-LN payment already " + p.Truth.String())
	}
	p.AmountMsat, p.FeeLimitSat, p.Partial = amountMsat, maxFee, partial
	inv := n.Invoices[p.Hash]
	if inv != nil && inv.Settled && !partial {
		p.Truth = ptFailed
		n.call(c.mint, method, p.Hash, maxFee, "failed:invoice already paid")
		return lightning.PaymentStatus{PaymentStatus: lightning.Failed}, errors.New("SIMFAULT-LN invoice already paid")
	}

	mode := "succeeded"
	if sc := n.Scripts[p.Hash]; sc != nil {
		mode = sc.Pay
	} else if n.ForceNextPay != "" {
		// fixed scenarios whose invoice is created inside the operation under test
		mode, n.ForceNextPay = n.ForceNextPay, ""
	} else if n.Cfg.PayOutcomeMix == 1 && !n.s.Quiet {
		mode = []string{"succeeded", "failed", "pending", "error-none", "error-inflight", "error-succeeded", "error-failed", "timeout"}[n.s.Tape.Pick("ln.pay.outcome", 8, 3, 3, 1, 1, 1, 1, 1)]
	}
	n.s.Stats["ln_pay_"+mode]++
	n.call(c.mint, method, p.Hash, maxFee, mode)
	switch mode {
	case "succeeded":
		n.succeed(p)
		return lightning.PaymentStatus{Preimage: n.preimage(p), PaymentStatus: lightning.Succeeded}, nil
	case "failed":
		p.Truth = ptFailed
		// a backend reports a failed payment as status FAILED with or without an error value (the real
		// adapters differ); chosen from the payment hash, so that it costs no tape draw
		if len(p.Hash) > 1 && p.Hash[len(p.Hash)-2]%2 == 0 {
			return lightning.PaymentStatus{PaymentStatus: lightning.Failed, PaymentFailureReason: "no route"}, nil
		}
		return lightning.PaymentStatus{PaymentStatus: lightning.Failed}, errors.New("SIMFAULT-LN payment error: no route")
	case "pending":
		p.Truth = ptInflight
		return lightning.PaymentStatus{PaymentStatus: lightning.Pending}, nil
	case "timeout":
		p.Truth = ptInflight
		<-ctx.Done()
		return lightning.PaymentStatus{PaymentStatus: lightning.Pending}, nil
	case "error", "error-inflight":
		p.Truth = ptInflight
	case "error-none":
		p.Truth = ptNone
	case "error-succeeded":
		n.succeed(p)
	case "error-failed":
		p.Truth = ptFailed
	}
	return errStatus(p.Hash), errors.New("SIMFAULT-LN rpc error: transport is closing")
}

// errStatus: the status value that accompanies a transport error. The real adapters differ (LND:
// Failed; CLN: Pending or the zero value, which happens to read as Succeeded): only the error may
// be believed. Chosen from the payment hash, so that it costs no tape draw.
func errStatus(hash string) lightning.PaymentStatus {
	if len(hash) == 0 {
		return lightning.PaymentStatus{PaymentStatus: lightning.Failed}
	}
	switch hash[len(hash)-1] % 3 {
	case 0:
		return lightning.PaymentStatus{}
	case 1:
		return lightning.PaymentStatus{PaymentStatus: lightning.Pending}
	}
	return lightning.PaymentStatus{PaymentStatus: lightning.Failed}
}

func (n *LNNet) preimage(p *LNPayment) string {
	if inv := n.Invoices[p.Hash]; inv != nil {
		return inv.Preimage
	}
	return "00"
}

func (c *LNClient) SendPayment(ctx context.Context, request string, maxFee uint64) (lightning.PaymentStatus, error) {
	return c.pay(ctx, "SendPayment", request, 0, maxFee, false)
}

func (c *LNClient) PayPartialAmount(ctx context.Context, request string, amountMsat uint64, maxFee uint64) (lightning.PaymentStatus, error) {
	return c.pay(ctx, "PayPartialAmount", request, amountMsat, maxFee, true)
}

func (c *LNClient) OutgoingPaymentStatus(ctx context.Context, hash string) (lightning.PaymentStatus, error) {
	n := c.net
	n.s.Yield(c.inc, "ln", "ln.OutgoingPaymentStatus "+short(hash))
	p := n.Payments[c.mint+"|"+hash]
	n.s.Stats["ln_status_lookup"]++
	ans := ""
	if sc := n.Scripts[hash]; sc != nil && sc.pos < len(sc.Status) {
		ans = sc.Status[sc.pos]
		sc.pos++
		// a scripted definitive answer *is* the truth from now on
		if p != nil {
			switch ans {
			case "succeeded":
				if p.Truth != ptSucceeded {
					n.succeed(p)
				}
			case "failed":
				if p.Truth != ptSucceeded {
					p.Truth = ptFailed
				}
			case "notfound":
				// the backend says no such payment exists: then none is in flight
				if p.Truth == ptInflight {
					p.Truth = ptNone
				}
			}
		}
	} else {
		truth := ptNone
		if p != nil {
			truth = p.Truth
		}
		ans = map[payTruth]string{ptNone: "notfound", ptInflight: "pending", ptSucceeded: "succeeded", ptFailed: "failed"}[truth]
		if !n.s.Quiet && n.Cfg.AmbiguousPct > 0 && n.s.Tape.Chance("ln.status.amb", n.Cfg.AmbiguousPct, 100) {
			ans = "error"
			n.s.Stats["ln_status_ambiguous"]++
		}
	}
	n.call(c.mint, "OutgoingPaymentStatus", hash, 0, ans)
	n.s.Stats["ln_status_"+ans]++
	switch ans {
	case "notfound":
		return lightning.PaymentStatus{PaymentStatus: lightning.Failed}, lightning.OutgoingPaymentNotFound
	case "error":
		return errStatus(hash), errLNInjected
	case "failed":
		return lightning.PaymentStatus{PaymentStatus: lightning.Failed, PaymentFailureReason: "no route"}, nil
	case "pending":
		return lightning.PaymentStatus{PaymentStatus: lightning.Pending}, nil
	case "succeeded":
		pre := "00"
		if p != nil {
			pre = n.preimage(p)
		} else if inv := n.Invoices[hash]; inv != nil {
			pre = inv.Preimage
		}
		return lightning.PaymentStatus{Preimage: pre, PaymentStatus: lightning.Succeeded}, nil
	}
	harnessf("bad scripted status answer %q", ans)
	return lightning.PaymentStatus{}, nil
}

func (c *LNClient) FeeReserve(amount uint64) uint64 { return c.net.feePolicy(amount) }

type lnSub struct {
	ch       chan lightning.Invoice
	ctx      context.Context
	notified bool
	inc      *Inc
}

func (s *lnSub) Recv() (lightning.Invoice, error) {
	select {
	case inv := <-s.ch:
		return inv, nil
	case <-s.ctx.Done():
		return lightning.Invoice{}, s.ctx.Err()
	}
}

func (c *LNClient) SubscribeInvoice(ctx context.Context, paymentHash string) (lightning.InvoiceSubscriptionClient, error) {
	c.net.s.Yield(c.inc, "ln", "ln.SubscribeInvoice "+short(paymentHash))
	if !c.net.Cfg.Watcher {
		return nil, errors.New("SIMFAULT-LN subscriptions disabled")
	}
	inv := c.net.Invoices[paymentHash]
	if inv == nil {
		return nil, errors.New("SIMFAULT-LN invoice does not exist")
	}
	sub := &lnSub{ch: make(chan lightning.Invoice, 1), ctx: ctx, inc: c.inc}
	inv.subs = append(inv.subs, sub)
	return sub, nil
}

func short(h string) string {
	if len(h) > 8 {
		return h[:8]
	}
	return h
}
