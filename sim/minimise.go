package sim

import (
	"testing"
	"time"
)

func hasRule(r RunResult, rule string) bool {
	for _, v := range r.Fatal {
		if v.Rule == rule {
			return true
		}
	}
	return false
}

// StepLoop runs between min and max driver steps, one tape segment each. In replay
// mode the number of steps is the number of recorded step segments.
func (rc *RunCtx) StepLoop(min, max int, fn func(i int)) {
	n := rc.T.Range("nsteps", min, max)
	if rc.T.Replay {
		i := 0
		for rc.T.NextSeg() {
			fn(i)
			i++
		}
		return
	}
	for i := 0; i < n; i++ {
		rc.T.NextSeg()
		fn(i)
	}
}

// Minimise shrinks the tape of a failing run while the same oracle rule still fires
// (DESIGN.md §7): drop whole steps, cut segment suffixes, zero individual decisions.
func Minimise(t *testing.T, orig RunResult) RunResult {
	rule := orig.Fatal[0].Rule
	best := orig
	execs := 0
	deadline := time.Now().Add(100 * time.Second)
	try := func(tape [][]Choice) bool {
		if execs >= 250 || time.Now().After(deadline) {
			return false
		}
		execs++
		spec := orig.Spec
		spec.Tape = tape
		r := Exec(t, spec)
		if r.HarnessErr == "" && hasRule(r, rule) {
			best = r
			return true
		}
		return false
	}
	cur := func() [][]Choice { return cloneTape(best.Tape) }

	// 1. drop step segments, last first; repeat until fixpoint
	for changed := true; changed; {
		changed = false
		for i := len(best.Tape) - 1; i >= 1; i-- {
			tp := cur()
			if i >= len(tp) {
				continue
			}
			tp = append(tp[:i], tp[i+1:]...)
			if try(tp) {
				changed = true
			}
		}
	}
	// 2. cut segment suffixes
	for i := 0; i < len(best.Tape); i++ {
		for len(best.Tape[i]) > 0 {
			tp := cur()
			half := len(tp[i]) / 2
			tp[i] = tp[i][:half]
			if !try(tp) {
				break
			}
		}
	}
	// 3. zero individual non-zero decisions
	for i := 0; i < len(best.Tape); i++ {
		for j := 0; j < len(best.Tape[i]); j++ {
			if i >= len(best.Tape) || j >= len(best.Tape[i]) || best.Tape[i][j].V == 0 {
				continue
			}
			tp := cur()
			tp[i][j].V = 0
			try(tp)
		}
	}
	// final: re-execute the best tape with tracing for the replay file
	spec := orig.Spec
	spec.Tape = best.Tape
	spec.Trace = true
	r := Exec(t, spec)
	if r.HarnessErr == "" && hasRule(r, rule) {
		best = r
	}
	best.Stats["minimise_execs"] = execs
	best.Stats["orig_tape_nonzero"] = countNonZero(orig.Tape)
	best.Stats["min_tape_nonzero"] = countNonZero(best.Tape)
	// coverage counters of the original run are what the evidence counts
	best.Spec.Seed = orig.Spec.Seed
	return best
}

func cloneTape(t [][]Choice) [][]Choice {
	cp := make([][]Choice, len(t))
	for i := range t {
		cp[i] = append([]Choice(nil), t[i]...)
	}
	return cp
}

func countNonZero(t [][]Choice) int {
	n := 0
	for _, s := range t {
		for _, c := range s {
			if c.V != 0 {
				n++
			}
		}
	}
	return n
}
