package sim

import (
	"github.com/elnosh/gonuts/mint"
)

type MintOpts struct {
	Fee    uint
	Limits mint.MintLimits
	MPP    bool
}

// NewMintWorld creates the world with mints named in order "A","B",...
func (rc *RunCtx) NewMintWorld(ln LNConfig, opts ...MintOpts) *World {
	w := NewWorld(rc.S, rc.Dir, ln)
	rc.W = w
	q := rc.S.Quiet
	rc.S.Quiet = true
	for i, o := range opts {
		name := string(rune('A' + i))
		_, err := w.StartMint(name, mint.Config{InputFeePpk: o.Fee, Limits: o.Limits, EnableMPP: o.MPP})
		if err != nil {
			harnessf("start mint %s: %v", name, err)
		}
		w.RefreshKeysets(name, uint64(o.Fee))
	}
	rc.S.Quiet = q
	return w
}

// Quietly runs fn in the driver with scheduling and fault injection off.
func (rc *RunCtx) Quietly(fn func()) {
	q := rc.S.Quiet
	rc.S.Quiet = true
	fn()
	rc.S.Quiet = q
}
