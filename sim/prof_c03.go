package sim

import (
	"fmt"
	"strings"
	"time"
)

// C03 — a mint quote is issued at most once per payment, never before it is paid.
// World: 1 mint, real checkInvoicePaid watcher over the SimLN subscription.
// Oracle: Book rules C03.* (per-quote issuance bound, payment-before-issue, NUT-20).

func init() {
	Register(&Profile{
		Prop:  "C03",
		Fatal: []string{"C03."},
		Run:   runC03,
		Core:  coreC03,
	})
}

func coreC03(tier string) []RunSpec {
	var out []RunSpec
	// deterministic sequential histories, one per kind, with and without watcher
	for k := 0; k < 12; k++ { // polls and state checks landing inside an internal settlement
		out = append(out, RunSpec{Profile: "core:internal-with-polls", Params: map[string]int{"kind": kindIdx("internal"), "watcher": 0, "pollers": 1, "k": k}})
	}
	for v := 1; v <= 2; v++ { // partial melt quote on the own invoice of an unpaid / an issued quote
		out = append(out, RunSpec{Profile: "core:internal-partial", Params: map[string]int{"kind": kindIdx("internal"), "watcher": 0, "mpp": 1, "partial": v}})
	}
	// a storage error inside the melt quote request that precedes an internal settlement: variant
	// (own invoice + partial amount / forged invoice / own invoice) x quote state x position of the error
	for v := 0; v < 3; v++ {
		for st := 0; st < 2; st++ {
			for fq := 1; fq <= 3; fq++ {
				out = append(out, RunSpec{Profile: "core:internal-faulted-quote", Params: map[string]int{"kind": kindIdx("intfq"), "watcher": 0, "mpp": 1, "fqv": v, "fqs": st, "fq": fq}})
			}
		}
	}
	for _, kind := range []string{"seq", "internal", "nut20", "race", "faulted"} {
		for w := 0; w <= 1; w++ {
			n := 1
			if kind == "faulted" {
				n = 8 // storage error at the k-th storage call, k = 1..8
			}
			if kind == "race" {
				n = 6
				if tier == "thorough" {
					n = 40
				}
			}
			for k := 0; k < n; k++ {
				p := map[string]int{"kind": kindIdx(kind), "watcher": w, "k": k}
				if kind == "faulted" {
					p["fk"] = k + 1
				}
				out = append(out, RunSpec{Profile: "core:" + kind, Params: p})
			}
		}
	}
	return out
}

var c03Kinds = []string{"race", "seq", "internal", "nut20", "faulted", "intfq"}

func kindIdx(k string) int {
	for i, x := range c03Kinds {
		if x == k {
			return i
		}
	}
	return 0
}

func runC03(rc *RunCtx) {
	T := rc.T
	watcher := T.Chance("cfg.watcher", 3, 4)
	if v, ok := rc.Spec.Params["watcher"]; ok {
		watcher = v == 1
	}
	ln := LNConfig{Watcher: watcher, FeePolicy: T.Choose("cfg.feepol", 4)}
	if T.Chance("cfg.invstatus.amb", 1, 4) {
		ln.AmbiguousPct = 15
	}
	rc.S.Policy = T.Choose("cfg.policy", 3)
	mpp := T.Chance("cfg.mpp", 1, 2)
	if v, ok := rc.Spec.Params["mpp"]; ok {
		mpp = v == 1
	}
	w := rc.NewMintWorld(ln, MintOpts{Fee: 0, MPP: mpp})
	_ = w
	user := NewActor(rc.W, "user")
	rc.Quietly(func() { user.Fund("A", 256) })

	forced := -1
	if v, ok := rc.Spec.Params["kind"]; ok {
		forced = v
	}
	rc.StepLoop(1, 5, func(i int) {
		kind := T.Pick("step.kind", 5, 2, 2, 2, 2, 1)
		if forced >= 0 {
			kind = forced
		}
		switch c03Kinds[kind] {
		case "race":
			c03Race(rc, user, i)
		case "seq":
			c03Seq(rc, user, i)
		case "internal":
			c03Internal(rc, user, i)
		case "faulted":
			c03Faulted(rc, user, i)
		case "nut20":
			c03Nut20(rc, user, i)
		case "intfq":
			c03InternalFaultedQuote(rc, user, i)
		}
	})
	c03Finale(rc, user)
}

func amountsUpTo(T *Tape, total uint64, site string) []uint64 {
	// a random sub-amount of total (1..total), split into powers of two
	a := uint64(1 + T.Choose(site, int(total)))
	return Split(a)
}

// c03Race: up to three concurrent mint requests with different outputs, pollers,
// the external payment and the asynchronous notification, all scheduled by the tape.
func c03Race(rc *RunCtx, user *Actor, step int) {
	T, W := rc.T, rc.W
	amount := uint64(1 << uint(T.Choose("race.amt", 7)))
	lock := T.Chance("race.lock", 1, 4)
	var q *MintQuote
	rc.Quietly(func() {
		var r *Resp
		q, r = user.ReqMintQuote("A", amount, lock)
		if q == nil {
			harnessf("mint quote: %v", r)
		}
	})
	rc.Op("race")
	ks := W.ActiveKeyset("A")
	nMint := 2 + T.Choose("race.nmint", 2)
	nPoll := T.Choose("race.npoll", 3)
	prePaid := T.Chance("race.prepaid", 1, 2)
	if prePaid {
		W.LN.PayExternal(q.Hash)
	}
	rc.S.BeginEpisode()
	for m := 0; m < nMint; m++ {
		name := fmt.Sprintf("s%d.minter%d", step, m)
		outs := W.NewOutputs(Split(amount), ks.ID)
		retry := T.Chance("race.retry", 1, 2)
		rc.S.Go(name, W.Ext, true, func() {
			a := NewActor(W, name)
			_, r := a.Mint("A", q, outs, "")
			if !r.OK() && retry {
				rc.S.Yield(W.Ext, "ext", "retry")
				outs2 := W.NewOutputs(Split(amount), ks.ID)
				a.Mint("A", q, outs2, "")
			}
		})
	}
	for p := 0; p < nPoll; p++ {
		name := fmt.Sprintf("s%d.poller%d", step, p)
		rc.S.Go(name, W.Ext, true, func() {
			a := NewActor(W, name)
			a.PollMintQuote("A", q.ID)
		})
	}
	rc.S.Go(fmt.Sprintf("s%d.payer", step), W.Ext, true, func() {
		if !prePaid {
			W.LN.PayExternal(q.Hash)
		}
		rc.S.Yield(W.Ext, "ext", "notify")
		W.LN.Notify(q.Hash)
	})
	rc.S.Drive(false)
	rc.Nontrivial = true
}

// c03Seq: sequential history: pay, mint, mint again, late notification, mint again, poll.
func c03Seq(rc *RunCtx, user *Actor, step int) {
	T, W := rc.T, rc.W
	amount := uint64(1 << uint(T.Choose("seq.amt", 7)))
	rc.Op("seq")
	ks := W.ActiveKeyset("A")
	var q *MintQuote
	name := fmt.Sprintf("s%d.seq", step)
	order := T.Choose("seq.order", 4)
	over := T.Pick("seq.over", 3, 1, 1, 1)
	rc.S.BeginEpisode()
	rc.S.Go(name, W.Ext, true, func() {
		a := NewActor(W, name)
		q, _ = a.ReqMintQuote("A", amount, false)
		if q == nil {
			return
		}
		// before payment: must fail
		a.Mint("A", q, W.NewOutputs(Split(amount), ks.ID), "")
		W.LN.PayExternal(q.Hash)
		if order == 1 {
			W.LN.Notify(q.Hash)
			rc.S.Yield(W.Ext, "ext", "after-notify")
		}
		if over > 0 {
			// more than the quoted amount: one sat more, twice the amount, or outputs of real
			// denominations whose sum wraps around 2^64 to exactly the quoted amount
			var amts []uint64
			switch over {
			case 1:
				amts = Split(amount + 1)
			case 2:
				amts = Split(amount * 2)
			default:
				for i := 0; i < 32; i++ {
					amts = append(amts, uint64(1)<<59)
				}
				amts = append(amts, Split(amount)...)
			}
			a.Mint("A", q, W.NewOutputs(amts, ks.ID), "")
			rc.S.Probe(fmt.Sprintf("c03_over_amount_request_%d", over))
		}
		a.Mint("A", q, W.NewOutputs(Split(amount), ks.ID), "")
		if order == 2 {
			a.PollMintQuote("A", q.ID)
		}
		// the late "invoice settled" notification after issuance
		W.LN.Notify(q.Hash)
		rc.S.Yield(W.Ext, "ext", "after-late-notify")
		a.PollMintQuote("A", q.ID)
		a.Mint("A", q, W.NewOutputs(Split(amount), ks.ID), "")
		if order == 3 {
			a.Mint("A", q, W.NewOutputs(Split(amount), ks.ID), "")
		}
	})
	rc.S.Drive(false)
	// let the watcher finish what it was doing, then try once more
	rc.S.Drain()
	if q != nil {
		rc.S.Run1(name+".again", W.Ext, func() {
			a := NewActor(W, name)
			a.Mint("A", q, W.NewOutputs(Split(amount), ks.ID), "")
		})
	}
	rc.Nontrivial = true
}

// c03Internal: the mint quote is paid by a melt at the same mint (internal settlement).
func c03Internal(rc *RunCtx, user *Actor, step int) {
	T, W := rc.T, rc.W
	amount := uint64(1 << uint(T.Choose("int.amt", 5)))
	rc.Op("internal")
	ks := W.ActiveKeyset("A")
	name := fmt.Sprintf("s%d.int", step)
	alsoLN := T.Chance("int.alsoLN", 1, 3)
	mintFirst := T.Chance("int.mintfirst", 1, 3)
	lnFail := !(alsoLN && mintFirst) && T.Chance("int.lnfail", 1, 3)
	forged := amount > 1 && T.Chance("int.forged", 1, 4)
	// a partial (MPP) melt quote on the mint's own invoice, in whatever state the mint quote is: if the
	// mint accepts it, what it settles is judged like any other internal settlement
	partial := amount > 1 && !forged && T.Chance("int.partial", 1, 3)
	if v, ok := rc.Spec.Params["partial"]; ok {
		partial, forged, lnFail = v > 0, false, false
		alsoLN, mintFirst = v == 2, v == 2
		if amount < 2 {
			amount = 2
		}
	}
	// quote polls and state checks may land inside the settlement (the quote is PENDING there and no
	// outgoing payment exists, so the backend answers "not found")
	pollers := !forged && !partial && !lnFail && T.Chance("int.pollers", 1, 3)
	if v, ok := rc.Spec.Params["pollers"]; ok {
		pollers, forged, partial, lnFail, alsoLN, mintFirst = v == 1, false, false, false, false, false
	}
	ambBefore := W.LN.Cfg.AmbiguousPct
	rc.S.BeginEpisode()
	rc.S.Go(name, W.Ext, true, func() {
		a := NewActor(W, name)
		q, _ := a.ReqMintQuote("A", amount, false)
		if q == nil {
			return
		}
		if alsoLN && mintFirst {
			W.LN.PayExternal(q.Hash)
			a.Mint("A", q, W.NewOutputs(Split(amount), ks.ID), "")
		}
		request := q.Request
		if forged {
			// the attacker's own invoice with the payment hash of the mint's invoice, for one sat
			if f, err := W.LN.ForgeInvoiceWithHash(q.Hash, 1000); err == nil {
				request = f
				rc.S.Probe("c03_forged_invoice_same_hash")
			}
		}
		var mppMsat uint64
		if partial {
			mppMsat = 1000
			rc.S.Probe("c03_partial_melt_quote_on_own_invoice")
		}
		lq, _ := a.ReqMeltQuote("A", request, mppMsat)
		if lq == nil {
			if forged || partial {
				// refused: the quote is unpaid, mint requests must be refused too
				a.Mint("A", q, W.NewOutputs(Split(amount), ks.ID), "")
			}
			return
		}
		ins := user.Take("A", lq.Amount+lq.Reserve)
		if ins == nil {
			return
		}
		// sometimes the Lightning backend fails while the mint settles the pair: the melt is
		// refused, so nothing was paid and the mint requests below must be refused too
		if lnFail {
			W.LN.Cfg.InvoiceErrPct, W.LN.Cfg.AmbiguousPct = 100, 100
		}
		Ys := make([]string, len(ins))
		for k, p := range ins {
			Ys[k] = p.Y()
		}
		if pollers {
			rc.S.Go(name+".poll", W.Ext, true, func() {
				p := NewActor(W, name+".poll")
				for k := 0; k < 3; k++ {
					p.PollMeltQuote("A", lq.ID)
					p.CheckState("A", Ys)
				}
			})
			rc.S.Probe("c03_polls_during_internal_settlement")
		}
		r := a.Melt("A", lq.ID, ins)
		if lnFail {
			W.LN.Cfg.InvoiceErrPct, W.LN.Cfg.AmbiguousPct = 0, ambBefore
			rc.S.Probe("c03_internal_backend_failure")
		}
		if r.OK() {
			user.remove("A", ins)
		}
		_, m1 := a.Mint("A", q, W.NewOutputs(Split(amount), ks.ID), "")
		_, m2 := a.Mint("A", q, W.NewOutputs(Split(amount), ks.ID), "")
		if (m1.OK() || m2.OK()) && !alsoLN && !r.OK() {
			// the quote was issued although no Lightning payment exists and the melt was answered with an
			// error: the only thing that can have paid it is that melt's inputs - they must be gone
			if cs := a.CheckState("A", Ys); cs.OK() {
				if arr, _ := cs.Body["states"].([]any); len(arr) == len(Ys) {
					for k := range arr {
						if st, _ := arr[k].(map[string]any)["state"].(string); st == "UNSPENT" {
							W.Book.Violate("C03.internal_unbacked", "melt", "mint quote %s was issued on an internal settlement whose melt request failed and whose inputs are UNSPENT: nothing paid for it", short(q.ID))
							break
						}
					}
				}
			}
		}
		if alsoLN && !mintFirst {
			// the invoice is additionally paid over Lightning: a second payment
			if W.LN.PayExternal(q.Hash) {
				W.LN.Notify(q.Hash)
				rc.S.Yield(W.Ext, "ext", "after-notify")
				a.PollMintQuote("A", q.ID)
				a.Mint("A", q, W.NewOutputs(Split(amount), ks.ID), "")
				a.Mint("A", q, W.NewOutputs(Split(amount), ks.ID), "")
			}
		}
	})
	rc.S.Drive(false)
	rc.Nontrivial = true
}

// c03InternalFaultedQuote: the melt quote request that precedes an internal settlement meets a storage
// error (the mint's look-up of its own mint quote may be the call that fails); whatever quote comes out
// of it is melted, and the mint quote is then minted on. Judged by the Book like any other settlement.
func c03InternalFaultedQuote(rc *RunCtx, user *Actor, step int) {
	T, W := rc.T, rc.W
	amount := uint64(2 << uint(T.Choose("fq.amt", 5)))
	variant := rc.P("fqv", -1)
	if variant < 0 {
		variant = T.Choose("fq.variant", 3)
	}
	state := rc.P("fqs", -1)
	if state < 0 {
		state = T.Choose("fq.state", 2)
	}
	pos := rc.P("fq", -1)
	if pos < 0 {
		pos = 1 + T.Choose("fq.pos", 3)
	}
	rc.Op(fmt.Sprintf("internal faulted-quote variant=%d state=%d db_error@%d", variant, state, pos))
	ks := W.ActiveKeyset("A")
	name := fmt.Sprintf("s%d.fq", step)
	a := NewActor(W, name)
	var q *MintQuote
	rc.Quietly(func() {
		q, _ = a.ReqMintQuote("A", amount, false)
		if q != nil && state == 1 {
			W.LN.PayExternal(q.Hash)
			a.Mint("A", q, W.NewOutputs(Split(amount), ks.ID), "")
		}
	})
	if q == nil {
		return
	}
	request := q.Request
	var mppMsat uint64
	switch variant {
	case 0:
		if W.Mints["A"].Cfg.EnableMPP {
			mppMsat = 1000
		}
	case 1:
		if f, err := W.LN.ForgeInvoiceWithHash(q.Hash, 1000); err == nil {
			request = f
		}
	}
	var lq *MeltQuote
	rc.S.BeginEpisode(&FaultPlan{Node: "A", Kind: "db_error", SeamKind: "db", Pos: pos})
	rc.S.Run1(name+".q", W.Ext, func() { lq, _ = a.ReqMeltQuote("A", request, mppMsat) })
	rc.S.BeginEpisode()
	rc.S.Run1(name+".rest", W.Ext, func() {
		if lq != nil {
			rc.S.Probe("c03_melt_quote_despite_storage_error")
			if ins := user.Take("A", lq.Amount+lq.Reserve); ins != nil {
				if r := a.Melt("A", lq.ID, ins); r.OK() {
					user.remove("A", ins)
				}
			}
		}
		a.Mint("A", q, W.NewOutputs(Split(amount), ks.ID), "")
		a.Mint("A", q, W.NewOutputs(Split(amount), ks.ID), "")
	})
	rc.S.Probe("c03_internal_faulted_quote")
	rc.Nontrivial = true
}

// c03Nut20: locked quote, tampered signatures, then the right one.
func c03Nut20(rc *RunCtx, user *Actor, step int) {
	T, W := rc.T, rc.W
	amount := uint64(3 + T.Choose("n20.amt", 60))
	rc.Op("nut20")
	ks := W.ActiveKeyset("A")
	name := fmt.Sprintf("s%d.n20", step)
	nTamper := 1 + T.Choose("n20.ntamper", 4)
	tampers := make([]int, nTamper)
	for i := range tampers {
		tampers[i] = T.Choose("n20.tamper", 8)
	}
	rc.S.BeginEpisode()
	rc.S.Go(name, W.Ext, true, func() {
		a := NewActor(W, name)
		q, _ := a.ReqMintQuote("A", amount, true)
		other, _ := a.ReqMintQuote("A", amount, true)
		if q == nil || other == nil {
			return
		}
		W.LN.PayExternal(q.Hash)
		for _, tk := range tampers {
			outs := W.NewOutputs(Split(amount), ks.ID)
			sig := ""
			send := outs
			switch tk {
			case 0: // wrong key
				sig = SignNut20(other.Priv, q.ID, outs)
			case 1: // signature for another quote id
				sig = SignNut20(q.Priv, other.ID, outs)
			case 2: // outputs reordered after signing
				if len(outs) > 1 {
					sig = SignNut20(q.Priv, q.ID, outs)
					send = append([]*HOutput{outs[len(outs)-1]}, outs[:len(outs)-1]...)
				} else {
					sig = SignNut20(other.Priv, q.ID, outs)
				}
			case 3: // output added after signing
				sig = SignNut20(q.Priv, q.ID, outs[:len(outs)-1])
			case 4: // output removed after signing
				sig = SignNut20(q.Priv, q.ID, outs)
				send = outs[:len(outs)-1]
				if len(send) == 0 {
					send = outs
					sig = SignNut20(other.Priv, q.ID, outs)
				}
			case 5: // malformed hex
				sig = "zz" + SignNut20(q.Priv, q.ID, outs)[2:]
			case 6: // no signature at all
				body := map[string]any{"quote": q.ID, "outputs": outsJ(outs)}
				a.Post("A", "/v1/mint/bolt11", body)
				continue
			case 7: // truncated signature
				sig = SignNut20(q.Priv, q.ID, outs)[:64]
			}
			a.Mint("A", q, send, sig)
			rc.S.Probe("c03_nut20_tamper")
		}
		// the honest request must now succeed (non-fatal here, belongs to C06)
		_, r := a.Mint("A", q, W.NewOutputs(Split(amount), ks.ID), "")
		if !r.OK() {
			W.Book.Violate("C06.quote_stranded", "nut20", "paid locked quote not mintable after rejected attempts: %v", r)
		}
		// and a second one must fail
		a.Mint("A", q, W.NewOutputs(Split(amount), ks.ID), "")
	})
	rc.S.Drive(false)
	rc.Nontrivial = true
}

// c03Finale: faults off; deliver everything that is still in flight, then every
// quote that was paid gets one more honest mint attempt with fresh outputs. The Book
// flags any issuance beyond amount x payments.
func c03Finale(rc *RunCtx, user *Actor) {
	W := rc.W
	rc.S.Quiet = true
	for _, h := range W.LN.PendingNotifications() {
		W.LN.Notify(h)
	}
	rc.S.Drain()
	rc.S.Sleep(2 * time.Second)
	rc.S.Drain()
	mb := W.Book.Mint("A")
	ks := W.ActiveKeyset("A")
	a := NewActor(W, "finale")
	for _, qid := range mb.MQOrder {
		mq := mb.MQ[qid]
		inv := W.LN.Invoices[mq.Hash]
		if inv == nil || (inv.PaidCount == 0 && W.Book.internalSettlements(mb, mq) == 0) {
			continue
		}
		q := &MintQuote{ID: mq.ID, Request: mq.Request, Hash: mq.Hash, Amount: mq.Amount}
		if mq.Pubkey != "" {
			continue // no key at hand; locked quotes were exercised in their own step
		}
		for k := 0; k < 2; k++ {
			rc.S.Run1(fmt.Sprintf("finale.%s.%d", short(qid), k), W.Ext, func() {
				a.Mint("A", q, W.NewOutputs(Split(mq.Amount), ks.ID), "")
			})
		}
		rc.S.Drain()
	}
	_ = strings.Join
}

// c03Faulted: a mint request on a paid quote meets a storage error at its k-th storage call. Whatever
// it left behind: the client restores the outputs of the refused request (as a wallet does after a
// failed mint) and then asks again with fresh outputs - signatures that leave through restore count
// for the quote like those of a mint response.
func c03Faulted(rc *RunCtx, user *Actor, step int) {
	T, W := rc.T, rc.W
	amount := uint64(1 << uint(T.Choose("flt.amt", 6)))
	k := 1 + T.Choose("flt.k", 8)
	if v, ok := rc.Spec.Params["fk"]; ok {
		k = v
	}
	rc.Op(fmt.Sprintf("faulted-mint db_error@%d", k))
	ks := W.ActiveKeyset("A")
	name := fmt.Sprintf("s%d.flt", step)
	a := NewActor(W, name)
	var q *MintQuote
	rc.Quietly(func() {
		q, _ = a.ReqMintQuote("A", amount, false)
		if q != nil {
			W.LN.PayExternal(q.Hash)
		}
	})
	if q == nil {
		return
	}
	outs1 := W.NewOutputs(Split(amount), ks.ID)
	rc.S.BeginEpisode(&FaultPlan{Node: "A", Kind: "db_error", SeamKind: "db", Pos: k})
	rc.S.Run1(name+".m1", W.Ext, func() { a.Mint("A", q, outs1, "") })
	rc.S.BeginEpisode()
	rc.S.Run1(name+".rest", W.Ext, func() {
		a.Restore("A", outs1)
		a.Mint("A", q, W.NewOutputs(Split(amount), ks.ID), "")
		a.Restore("A", outs1)
		a.Mint("A", q, W.NewOutputs(Split(amount), ks.ID), "")
	})
	rc.S.Probe("c03_faulted_mint")
	rc.Nontrivial = true
}
