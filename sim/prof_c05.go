package sim

import (
	"fmt"
	"strings"
	"time"
)

// C05 — melt inputs follow the Lightning outcome. The script space of the
// quantifier is enumerated: pay answer x up to three status answers x the channel
// (melt's own extra check / quote poll / checkstate) each answer is consumed through.
// Oracle: independent decision table written from the statement.

func init() {
	Register(&Profile{Prop: "C05", Fatal: []string{"C05."}, Run: runC05, Core: coreC05})
}

var c05Pay = []string{"succeeded", "pending", "failed", "error"}
var c05Status = []string{"", "notfound", "error", "failed", "pending", "succeeded"}

func coreC05(tier string) []RunSpec {
	var out []RunSpec
	maxLen := 2
	if tier == "thorough" {
		maxLen = 3
	}
	for pay := 0; pay < 4; pay++ {
		var rec func(seq []int)
		rec = func(seq []int) {
			// channel assignments for answers consumed by polls
			nch := len(seq)
			for ch := 0; ch < 1<<uint(nch); ch++ {
				for final := 0; final < 2; final++ {
					for mpp := 0; mpp < 2; mpp++ {
						if mpp == 1 && (tier != "thorough" && len(seq) > 1) {
							continue
						}
						p := map[string]int{"pay": pay, "ch": ch, "final": final, "mpp": mpp, "n": len(seq)}
						for i, s := range seq {
							p[fmt.Sprintf("s%d", i)] = s
						}
						out = append(out, RunSpec{Profile: "core:script", Params: p})
					}
				}
			}
			if len(seq) < maxLen {
				for s := 1; s <= 5; s++ {
					rec(append(append([]int{}, seq...), s))
				}
			}
		}
		rec(nil)
	}
	// the payment resolves only after the melt quote has expired (clock jump while it is in flight)
	for pay := 0; pay < 4; pay++ {
		for _, st := range []int{0, 2, 4} { // no status answer / error / pending first
			for final := 0; final < 2; final++ {
				for ch := 0; ch < 2; ch++ {
					p := map[string]int{"late": 1, "lated": (pay + st + final) % 3, "pay": pay, "final": final, "ch": ch, "mpp": 0, "n": 0}
					if st > 0 {
						p["n"], p["s0"] = 1, st
					}
					out = append(out, RunSpec{Profile: "core:late-resolution", Params: p})
				}
			}
		}
	}
	// the client repeats its melt request while the payment is in flight, then the scripted answers
	for _, pay := range []int{1, 3} { // pay call answers pending / transport error
		for st := 1; st <= 5; st++ {
			for final := 0; final < 2; final++ {
				for ch := 0; ch < 2; ch++ {
					out = append(out, RunSpec{Profile: "core:remelt-while-locked", Params: map[string]int{"remelt": 1, "pay": pay, "final": final, "ch": ch, "mpp": 0, "n": 1, "s0": st, "k": st + ch}})
				}
			}
		}
	}
	// a swap of the melt's inputs racing the melt request, for each pay answer
	for pay := 0; pay < 4; pay++ {
		for k := 0; k < 12; k++ {
			out = append(out, RunSpec{Profile: "core:race", Params: map[string]int{"race": 1, "pay": pay, "k": k, "n": 0, "racer": k % 4}})
		}
	}
	// one storage error inside the melt call or inside the poll that would adopt the outcome
	for pay := 0; pay < 4; pay++ {
		for k := 1; k <= 12; k++ {
			out = append(out, RunSpec{Profile: "core:db-error", Params: map[string]int{"dbf": 1, "pay": pay, "fpos": k, "fwhere": 0, "final": k % 2}})
			if tier == "thorough" || k <= 5 {
				out = append(out, RunSpec{Profile: "core:db-error", Params: map[string]int{"dbf": 1, "pay": pay, "fpos": k, "fwhere": 1, "final": k % 2}})
			}
		}
	}
	return out
}

const (
	c5Locked   = 1
	c5Spent    = 2
	c5Released = 4
)

func c5name(set int) string {
	var n []string
	if set&c5Locked != 0 {
		n = append(n, "LOCKED")
	}
	if set&c5Spent != 0 {
		n = append(n, "SPENT")
	}
	if set&c5Released != 0 {
		n = append(n, "RELEASED")
	}
	return strings.Join(n, "|")
}

// after a status answer while LOCKED
func c5Next(ans string) int {
	switch ans {
	case "succeeded":
		return c5Spent
	case "failed":
		return c5Released
	case "notfound":
		return c5Released | c5Locked // statement: released *only when* failed or not found; may stay locked
	default: // error, pending
		return c5Locked
	}
}

func quoteToState(st string) int {
	switch st {
	case "PAID":
		return c5Spent
	case "PENDING":
		return c5Locked
	case "UNPAID":
		return c5Released
	}
	return 0
}

func proofToState(st string) int {
	switch st {
	case "SPENT":
		return c5Spent
	case "PENDING":
		return c5Locked
	case "UNSPENT":
		return c5Released
	}
	return 0
}

func runC05(rc *RunCtx) {
	T := rc.T
	random := rc.Spec.Profile == "random"
	pay := rc.P("pay", 0)
	n := rc.P("n", 0)
	var seq []string
	ch := rc.P("ch", 0)
	final := rc.P("final", 0)
	mpp := rc.P("mpp", 0) == 1
	if random {
		// random scripts of length up to 4 status answers with background traffic
		pay = T.Choose("pay", 4)
		n = T.Choose("n", 5)
		for i := 0; i < n; i++ {
			seq = append(seq, c05Status[1+T.Choose("status", 5)])
		}
		ch = T.Choose("ch", 16)
		final = T.Choose("final", 2)
		mpp = T.Chance("mpp", 1, 3)
	} else {
		for i := 0; i < n; i++ {
			seq = append(seq, c05Status[rc.P(fmt.Sprintf("s%d", i), 1)])
		}
	}
	// separate configuration: one injected storage error (in the melt call or in a poll). The step
	// by step table is not judged then - an operation may fail - only the convergence clause:
	// once the backend knows the final outcome and errors stopped, the next polls adopt it.
	dbf := rc.P("dbf", 0) == 1
	fpos, fwhere := rc.P("fpos", 1), rc.P("fwhere", 0)
	if random && T.Chance("dbf", 1, 4) {
		dbf = true
		fpos = 1 + T.Choose("dbf.pos", 14)
		fwhere = T.Choose("dbf.where", 2)
	}
	if dbf {
		// only ambiguous scripted answers: a scripted definitive answer is consumed once, and a
		// poll repeated after a storage error would be told something else by a lying backend
		amb := seq[:0]
		for _, a := range seq {
			if a == "error" || a == "pending" {
				amb = append(amb, a)
			}
		}
		seq = amb
		n = len(seq)
	}
	late := rc.P("late", 0) == 1 || (random && T.Chance("late", 1, 4))
	script := c05Pay[pay] + ":" + strings.Join(seq, ",")
	if dbf {
		script += fmt.Sprintf(" db_error@%d/%d", fpos, fwhere)
	}
	ln := LNConfig{FeePolicy: 1}
	fee := uint(0)
	if random {
		fee = []uint{0, 100, 1000}[T.Choose("fee", 3)]
		ln.FeePolicy = T.Choose("feepol", 4)
	}
	rc.NewMintWorld(ln, MintOpts{Fee: fee, MPP: true})
	if random {
		rc.S.Policy = T.Choose("cfg.policy", 3)
	}
	W := rc.W
	m := NewMW(rc, "A")
	m.Fees = map[string][]uint64{"A": {uint64(fee)}}
	rc.Quietly(func() { m.User.Fund("A", 255) })
	rc.Op("script " + script + fmt.Sprintf(" ch=%b final=%d mpp=%v", ch, final, mpp))
	bg := func() {
		if random && T.Chance("bg", 1, 2) {
			m.step++
			m.Step(T.Pick("bg.kind", 1, 3, 0, 0, 2, 1, 0, 2, 1), false)
		}
	}
	bg()

	amt := uint64(40)
	inv := W.LN.NewExternalInvoice(amt * 1000)
	sc := &LNScript{Pay: c05Pay[pay], Status: seq}
	W.LN.Scripts[inv.Hash] = sc
	fail := func(rule, format string, a ...any) {
		W.Book.Violate("C05."+rule, script, "script [%s]: %s", script, fmt.Sprintf(format, a...))
	}

	var q *MeltQuote
	var ins []*HProof
	var meltResp *Resp
	if dbf {
		// the quote is requested in an episode of its own: the storage error is for the melt
		rc.S.BeginEpisode()
		rc.S.Run1("quote", W.Ext, func() {
			var mppMsat uint64
			if mpp {
				mppMsat = amt * 1000 / 2
			}
			q, _ = m.User.ReqMeltQuote("A", inv.Bolt11, mppMsat)
		})
	}
	// separate configuration: somebody tries to swap the melt's inputs while the melt request is
	// being processed ("unusable elsewhere"): the two requests are interleaved by the tape
	race := rc.P("race", 0) == 1 || (random && !dbf && T.Chance("race", 1, 4))
	if race {
		if c05Race(rc, m, inv, amt, mpp, c05Pay[pay], fail) {
			rc.Nontrivial = true
		}
		return
	}
	if dbf && fwhere == 0 {
		rc.S.BeginEpisode(&FaultPlan{Node: "A", Kind: "db_error", SeamKind: "db", Pos: fpos})
	} else {
		rc.S.BeginEpisode()
	}
	rc.S.Run1("melt", W.Ext, func() {
		var mppMsat uint64
		if mpp {
			mppMsat = amt * 1000 / 2
		}
		if !dbf {
			q, _ = m.User.ReqMeltQuote("A", inv.Bolt11, mppMsat)
		}
		if q == nil {
			return
		}
		ins = m.TakeFor("A", q.Amount+q.Reserve)
		if ins == nil {
			return
		}
		m.User.remove("A", ins)
		meltResp = m.User.Melt("A", q.ID, ins)
	})
	if q == nil || ins == nil || meltResp == nil {
		if random {
			return // background traffic used up the purse: trivial run
		}
		harnessf("C05 setup failed")
	}
	Ys := make([]string, len(ins))
	for i, p := range ins {
		Ys[i] = p.Y()
	}
	if dbf {
		c05Faulted(rc, m, q, ins, Ys, inv, seq, ch, final, fpos, fwhere, fail)
		return
	}

	// expected state after the melt call
	allowed := 0
	consumed := 0
	switch c05Pay[pay] {
	case "succeeded":
		allowed = c5Spent
	case "pending":
		allowed = c5Locked
	default:
		// extra status check inside melt consumes the first scripted answer (or the truth)
		ans := ""
		if len(seq) > 0 {
			ans = seq[0]
			consumed = 1
		} else if c05Pay[pay] == "failed" {
			ans = "failed"
		} else {
			ans = "pending" // transport error: the payment may be in flight
		}
		allowed = c5Next(ans)
	}
	if !meltResp.OK() {
		fail("melt_error", "melt answered %v instead of a quote state", meltResp)
		return
	}
	got := quoteToState(RespState(meltResp))
	if got&allowed == 0 {
		fail("melt_state", "melt returned state %s, statement allows %s", RespState(meltResp), c5name(allowed))
		return
	}
	cur := got
	rc.S.Probe("c05_after_melt_" + c5name(cur))
	// a second melt request on the quote while its payment may still succeed (a client that retries):
	// it must be refused, and it must not get in the way of the polls that follow
	if cur == c5Locked && (rc.P("remelt", 0) == 1 || (random && T.Chance("remelt", 1, 3))) {
		rc.S.BeginEpisode()
		rc.S.Run1("remelt", W.Ext, func() {
			ins2 := m.TakeFor("A", q.Amount+q.Reserve)
			sameIns := ins2 == nil || rc.P("k", T.Choose("remelt.same", 2))%2 == 1
			if sameIns {
				ins2 = ins
			}
			r := m.User.Melt("A", q.ID, ins2)
			if r != nil && r.OK() {
				fail("remelt_accepted", "a second melt request on the quote was answered %s while the first payment may still succeed", RespState(r))
				if !sameIns {
					m.User.remove("A", ins2)
				}
			}
		})
		rc.S.Probe("c05_remelt_while_locked")
	}
	checkPreimage := func(r *Resp, where string) {
		if pre, _ := r.Body["payment_preimage"].(string); pre != inv.Preimage {
			fail("preimage", "%s reports PAID with preimage %q, the payment's preimage is %q", where, short(pre), short(inv.Preimage))
		}
	}
	if cur == c5Spent {
		checkPreimage(meltResp, "melt")
	}

	// remaining scripted answers are consumed through polls
	poll := func(useCheckstate bool, expect int, why string) int {
		var st int
		rc.S.BeginEpisode()
		rc.S.Run1("poll", W.Ext, func() {
			if useCheckstate {
				r := m.User.CheckState("A", Ys)
				if !r.OK() {
					fail("poll_error", "checkstate failed: %v", r)
					return
				}
				states, _ := r.Body["states"].([]any)
				for i, sv := range states {
					sm, _ := sv.(map[string]any)
					s, _ := sm["state"].(string)
					x := proofToState(s)
					if i == 0 {
						st = x
					} else if x != st {
						fail("inputs_disagree", "inputs of one melt are in different states after %s", why)
					}
				}
				rc.S.Probe("c05_channel_checkstate")
			} else {
				r := m.User.PollMeltQuote("A", q.ID)
				if !r.OK() {
					fail("poll_error", "quote poll failed: %v", r)
					return
				}
				st = quoteToState(RespState(r))
				if st == c5Spent {
					checkPreimage(r, "quote poll")
				}
				rc.S.Probe("c05_channel_quote")
			}
		})
		if st != 0 && st&expect == 0 {
			chn := "quote poll"
			if useCheckstate {
				chn = "checkstate"
			}
			fail("poll_state", "after %s the %s shows %s, statement allows %s", why, chn, c5name(st), c5name(expect))
		}
		return st
	}
	for i := consumed; i < len(seq); i++ {
		bg()
		useCS := ch&(1<<uint(i)) != 0
		expect := cur
		if cur == c5Locked {
			expect = c5Next(seq[i])
		}
		st := poll(useCS, expect, fmt.Sprintf("status answer %d (%s)", i, seq[i]))
		if st == 0 || st&expect == 0 {
			return
		}
		cur = st
		rc.S.Probe("c05_trans_" + seq[i] + "_" + c5name(cur))
	}
	// script exhausted: the backend now answers truthfully. If still locked, the payment reaches
	// its final outcome and the *next* poll through either channel must adopt it - however long
	// the payment took (a quote's expiry limits when a melt may start, not when it may finish).
	if cur == c5Locked && late {
		d := []time.Duration{11 * time.Minute, 2 * time.Hour, 26 * time.Hour}[rc.P("lated", T.Choose("late.d", 3))%3]
		rc.Op("clock+" + d.String())
		rc.S.Sleep(d)
		rc.S.Probe("c05_resolved_after_quote_expiry")
	}
	if cur == c5Locked {
		key := "A|" + inv.Hash
		p := W.LN.Payments[key]
		if p == nil || p.Truth == ptNone {
			// no payment exists at the backend: "not found" -> released or still locked, never spent
			st := poll(ch&1 != 0, c5Released|c5Locked, "truthful not-found")
			if st != 0 {
				cur = st
			}
		} else {
			if p.Truth == ptInflight {
				W.LN.ResolveInflight(key, final == 1)
			}
			want := c5Released
			if p.Truth == ptSucceeded {
				want = c5Spent
			}
			st := poll(final == 1 != (ch&1 != 0), want, "final outcome "+p.Truth.String())
			if st != 0 {
				cur = st
			}
			rc.S.Probe("c05_final_adopted")
		}
	}
	// all channels agree, and the follow-up swap behaves accordingly
	rc.S.Quiet = true
	s1 := poll(false, cur, "cross-check")
	s2 := poll(true, cur, "cross-check")
	if s1 != 0 && s2 != 0 && s1 != s2 {
		fail("channels_disagree", "quote poll says %s, checkstate says %s", c5name(s1), c5name(s2))
	}
	ks := W.ActiveKeyset("A")
	feeIn := m.feeFor("A", ins)
	var sr *Resp
	rc.S.Run1("followup", W.Ext, func() {
		_, sr = m.Atk.Swap("A", ins, W.NewOutputs(Split(SumH(ins)-feeIn), ks.ID))
	})
	switch cur {
	case c5Released:
		if !sr.OK() {
			fail("released_not_spendable", "inputs reported released (UNSPENT/UNPAID) but a follow-up swap is rejected: %v", sr)
		} else {
			rc.S.Probe("c05_followup_swap_ok")
		}
	case c5Locked, c5Spent:
		if sr.OK() {
			fail("locked_spendable", "inputs are %s but a follow-up swap succeeded", c5name(cur))
		}
	}
	if cur == c5Released {
		// a new melt of the same quote must be possible again (quote UNPAID)
		rc.S.Probe("c05_released")
	}
	// money: the payment truth and the state must match at the end
	if p := W.LN.Payments["A|"+inv.Hash]; p != nil {
		if p.Truth == ptSucceeded && cur == c5Released {
			fail("paid_but_released", "the Lightning payment succeeded but the inputs were released")
		}
		if p.Truth == ptFailed && cur == c5Spent {
			fail("failed_but_spent", "the Lightning payment failed but the inputs are spent")
		}
	}
	W.Book.FinalizeMelts()
	rc.Nontrivial = true
}

// c05Faulted: the melt (fwhere 0) or one poll (fwhere 1) met a storage error. Afterwards the
// remaining ambiguous answers are consumed, the payment reaches its final outcome, and two clean
// polls through each channel must show the state that matches the backend's truth.
func c05Faulted(rc *RunCtx, m *MW, q *MeltQuote, ins []*HProof, Ys []string, inv *LNInvoice, seq []string, ch, final, fpos, fwhere int, fail func(string, string, ...any)) {
	W := rc.W
	look := func(useCS bool, plan *FaultPlan) int {
		st := 0
		if plan != nil {
			rc.S.BeginEpisode(plan)
		} else {
			rc.S.BeginEpisode()
		}
		rc.S.Run1("poll", W.Ext, func() {
			if useCS {
				r := m.User.CheckState("A", Ys)
				if !r.OK() {
					return
				}
				states, _ := r.Body["states"].([]any)
				for i, sv := range states {
					sm, _ := sv.(map[string]any)
					s, _ := sm["state"].(string)
					x := proofToState(s)
					if i == 0 {
						st = x
					} else if x != st {
						st = -1
					}
				}
			} else {
				r := m.User.PollMeltQuote("A", q.ID)
				if !r.OK() {
					return
				}
				st = quoteToState(RespState(r))
				if st == c5Spent {
					if pre, _ := r.Body["payment_preimage"].(string); pre != inv.Preimage {
						fail("preimage", "quote poll reports PAID with preimage %q, the payment's preimage is %q", short(pre), short(inv.Preimage))
					}
				}
			}
		})
		return st
	}
	// ambiguous answers, the first poll possibly with the storage error
	for i := 0; i <= len(seq); i++ {
		var plan *FaultPlan
		if fwhere == 1 && i == 0 {
			plan = &FaultPlan{Node: "A", Kind: "db_error", SeamKind: "db", Pos: fpos}
		}
		if i == len(seq) && plan == nil {
			break
		}
		st := look(ch&(1<<uint(i)) != 0, plan)
		if st == c5Spent {
			if p := W.LN.Payments["A|"+inv.Hash]; p == nil || p.Truth != ptSucceeded {
				fail("spent_without_success", "inputs reported SPENT / quote PAID although the backend never reported success")
				return
			}
		}
	}
	// from here on the backend answers truthfully (scripted answers a poll did not need - the
	// inputs were already settled - are dropped)
	delete(W.LN.Scripts, inv.Hash)
	key := "A|" + inv.Hash
	p := W.LN.Payments[key]
	if p != nil && p.Truth == ptInflight {
		W.LN.ResolveInflight(key, final == 1)
	}
	want, why := c5Released|c5Locked, "no payment exists"
	if p != nil {
		switch p.Truth {
		case ptSucceeded:
			want, why = c5Spent, "the payment succeeded"
		case ptFailed:
			want, why = c5Released, "the payment failed"
		}
	}
	rc.S.Quiet = true
	var sq, sc int
	for round := 0; round < 2; round++ {
		sq = look(false, nil)
		sc = look(true, nil)
	}
	rc.S.Probe("c05_faulted_converged_checked")
	if rc.S.Stats["fault_db_error"] > 0 {
		rc.S.Probe("c05_faulted_error_fired")
	}
	if sq == 0 || sc == 0 {
		fail("poll_error", "polls keep failing after the storage error stopped")
		return
	}
	if sc == -1 {
		fail("inputs_disagree", "inputs of one melt are in different states after a storage error (%s)", why)
		return
	}
	if sq&want == 0 || sc&want == 0 {
		fail("not_converged", "%s, but after two clean polls the quote shows %s and the inputs %s (statement: %s)", why, c5name(sq), c5name(sc), c5name(want))
		return
	}
	if sq != sc {
		fail("channels_disagree", "after a storage error the quote poll says %s, checkstate says %s", c5name(sq), c5name(sc))
		return
	}
	ks := W.ActiveKeyset("A")
	feeIn := m.feeFor("A", ins)
	var sr *Resp
	rc.S.Run1("followup", W.Ext, func() {
		_, sr = m.Atk.Swap("A", ins, W.NewOutputs(Split(SumH(ins)-feeIn), ks.ID))
	})
	if sq == c5Released && !sr.OK() {
		fail("released_not_spendable", "inputs reported released after a storage error but a follow-up swap is rejected: %v", sr)
	}
	if sq != c5Released && sr.OK() {
		fail("locked_spendable", "inputs are %s but a follow-up swap succeeded", c5name(sq))
	}
	W.Book.FinalizeMelts()
	rc.Nontrivial = true
}

// c05Race: the melt and a swap of the very same inputs run concurrently. Whatever the interleaving:
// if the melt got as far as a payment attempt (its inputs are locked or spent), the swap must have
// been refused; afterwards, while the payment is in flight, the inputs are PENDING and a second
// swap is refused; once the outcome is final the polls adopt it.
func c05Race(rc *RunCtx, m *MW, inv *LNInvoice, amt uint64, mpp bool, payMode string, fail func(string, string, ...any)) bool {
	W := rc.W
	var q *MeltQuote
	var ins []*HProof
	rc.S.BeginEpisode()
	rc.S.Run1("quote", W.Ext, func() {
		var mppMsat uint64
		if mpp {
			mppMsat = amt * 1000 / 2
		}
		q, _ = m.User.ReqMeltQuote("A", inv.Bolt11, mppMsat)
		if q != nil {
			if ins = m.TakeFor("A", q.Amount+q.Reserve); ins != nil {
				m.User.remove("A", ins)
			}
		}
	})
	if q == nil || ins == nil {
		return false
	}
	ks := W.ActiveKeyset("A")
	fee := m.feeFor("A", ins)
	outs := W.NewOutputs(Split(SumH(ins)-fee), ks.ID)
	var meltResp, swapResp *Resp
	racer := rc.P("racer", rc.T.Choose("race.racer", 4)) % 4
	var qB *MeltQuote
	if racer == 3 {
		// the racer is a melt request on ANOTHER quote naming the same inputs; its own payment would fail
		// at once, so whichever request gets the inputs, they end up with this melt or free
		invB := W.LN.NewExternalInvoice(amt * 1000)
		W.LN.Scripts[invB.Hash] = &LNScript{Pay: "failed", Status: []string{"failed", "failed"}}
		rc.Quietly(func() { qB, _ = m.Atk.ReqMeltQuote("A", invB.Bolt11, 0) })
		if qB == nil || qB.Amount+qB.Reserve+fee > SumH(ins) {
			racer = 0
		}
	}
	if racer != 0 {
		// polls may reach the backend before it knows of the payment: only a truthful backend makes
		// sense then (a scripted "succeeded" for a payment that does not exist yet would be a lie)
		if sc := W.LN.Scripts[inv.Hash]; sc != nil {
			sc.Status = nil
		}
	}
	rc.S.BeginEpisode()
	rc.S.Go("melt", W.Ext, true, func() { meltResp = m.User.Melt("A", q.ID, ins) })
	switch racer {
	case 0:
		rc.S.Go("raceswap", W.Ext, true, func() { _, swapResp = m.Atk.Swap("A", ins, outs) })
	case 3:
		swapResp = &Resp{Status: 400}
		rc.S.Go("racemelt", W.Ext, true, func() { m.Atk.Melt("A", qB.ID, ins) })
		rc.S.Probe("c05_race_melt_on_other_quote")
	default:
		// state checks / quote polls landing while the melt request is being processed (also in the
		// window after the quote went PENDING and before the backend knows of the payment: "not
		// found" at that instant says nothing about the payment that is about to be made)
		swapResp = &Resp{Status: 400}
		rc.S.Go("racepoll", W.Ext, true, func() {
			a := NewActor(W, "racepoll")
			for i := 0; i < 3; i++ {
				if racer == 1 {
					a.CheckState("A", []string{ins[0].Y()})
				} else {
					a.PollMeltQuote("A", q.ID)
				}
				rc.S.Yield(W.Ext, "ext", "between-polls")
			}
		})
		rc.S.Probe("c05_race_poll_during_melt")
	}
	rc.S.Drive(false)
	rc.S.Probe("c05_race_episode")
	if meltResp == nil || swapResp == nil {
		return false
	}
	p := W.LN.Payments["A|"+inv.Hash]
	attempted := p != nil && p.Attempts > 0
	if swapResp.OK() {
		rc.S.Probe("c05_race_swap_won")
		// (after a definitive failure the inputs are released again and a late swap is legitimate)
		if attempted && (p.Truth == ptInflight || p.Truth == ptSucceeded) {
			fail("locked_spendable", "a swap of the melt's inputs succeeded although the melt went on to a payment that is %s (melt answered %v)", p.Truth, meltResp)
		}
		return true
	}
	if !attempted {
		return true
	}
	rc.S.Probe("c05_race_melt_won")
	// the melt holds the inputs: while the payment may still succeed they are PENDING and unusable
	Ys := make([]string, len(ins))
	for i, x := range ins {
		Ys[i] = x.Y()
	}
	state := func() (qs, ps string) {
		rc.Quietly(func() {
			qs = RespState(m.User.PollMeltQuote("A", q.ID))
			r := m.User.CheckState("A", Ys)
			if states, _ := r.Body["states"].([]any); len(states) > 0 {
				sm, _ := states[0].(map[string]any)
				ps, _ = sm["state"].(string)
			}
		})
		return
	}
	if p.Truth == ptInflight {
		// scripted lookups are over: the backend answers truthfully "pending"
		delete(W.LN.Scripts, inv.Hash)
		qs, ps := state()
		if qs != "PENDING" || ps != "PENDING" {
			fail("race_state", "payment in flight after a racing swap was refused: quote %s, inputs %s (statement: PENDING)", qs, ps)
		}
		var sr *Resp
		rc.Quietly(func() { _, sr = m.Atk.Swap("A", ins, W.NewOutputs(Split(SumH(ins)-fee), ks.ID)) })
		if sr.OK() {
			fail("locked_spendable", "inputs of an in-flight melt were swapped")
		}
		W.LN.ResolveInflight("A|"+inv.Hash, rc.T.Chance("race.final", 1, 2))
	}
	delete(W.LN.Scripts, inv.Hash)
	qs, ps := state()
	qs, ps = state()
	switch p.Truth {
	case ptSucceeded:
		if qs != "PAID" || ps != "SPENT" {
			fail("not_converged", "the payment succeeded (after a racing swap was refused), quote %s, inputs %s", qs, ps)
		}
	case ptFailed:
		if qs != "UNPAID" || ps != "UNSPENT" {
			fail("not_converged", "the payment failed (after a racing swap was refused), quote %s, inputs %s", qs, ps)
		}
	}
	W.Book.FinalizeMelts()
	_ = payMode
	return true
}
