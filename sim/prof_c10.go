package sim

import (
	"crypto/sha256"
	"encoding/hex"
	"encoding/json"
	"fmt"
	"strings"

	"github.com/decred/dcrd/dcrec/secp256k1/v4"
	"github.com/elnosh/gonuts/cashu"
	"github.com/elnosh/gonuts/cashu/nuts/nut12"
	"github.com/elnosh/gonuts/crypto"
	"github.com/elnosh/gonuts/wallet"
)

// C10 — blind signatures and DLEQ proofs are algebraically correct and tamper-evident.
// Simulator dimensions: every signature in every simulated history, persistence across restart,
// and response corruption as a network fault. The "for all secrets/scalars" clause is covered on
// the values that arise plus edge values (empty and 512-byte secrets, r in {1, n-1}).

func init() {
	Register(&Profile{Prop: "C10", Fatal: []string{"C10.", "C15.restore"}, Run: runC10, Core: coreC10})
}

const c10NumCorrupt = 6

func coreC10(tier string) []RunSpec {
	var out []RunSpec
	for cv := 0; cv < c10NumCorrupt; cv++ {
		for op := 0; op < 3; op++ {
			out = append(out, RunSpec{Profile: "core:corrupt", Params: map[string]int{"corrupt": cv, "op": op}})
		}
	}
	for k := 0; k < 4; k++ {
		out = append(out, RunSpec{Profile: "core:edge", Params: map[string]int{"edge": 1, "k": k}})
	}
	out = append(out, RunSpec{Profile: "core:rotation-dleq", Params: map[string]int{"rotdleq": 1}})
	for k := 0; k < 8; k++ {
		out = append(out, RunSpec{Profile: "core:shared-output-race", Params: map[string]int{"sor": 1, "k": k}})
	}
	for k := 0; k < 12; k++ {
		out = append(out, RunSpec{Profile: "core:rotation-racing-swap", Params: map[string]int{"rotrace": 1, "k": k}})
	}
	for k := 0; k < 3; k++ {
		out = append(out, RunSpec{Profile: "core:rotation-mixed-token-dleq", Params: map[string]int{"rotdleq": 2, "k": k}})
	}
	for k := 0; k < 6; k++ {
		out = append(out, RunSpec{Profile: "core:tampered-token", Params: map[string]int{"tampered": 1, "k": k}})
	}
	for k := 0; k < 4; k++ {
		out = append(out, RunSpec{Profile: "core:tampered-token-appended-bytes", Params: map[string]int{"tampered": 1, "ttmode": 1 + k%2, "k": k}})
	}
	for k := 0; k < 4; k++ {
		out = append(out, RunSpec{Profile: "core:failed-melt-then-send-dleq", Params: map[string]int{"meltback": 1, "k": k}})
	}
	for k := 0; k < 4; k++ {
		out = append(out, RunSpec{Profile: "core:large-request-restore", Params: map[string]int{"large": 1, "k": k}})
	}
	return out
}

func scalarToPriv(s *Scalar) *secp256k1.PrivateKey {
	b := s.Bytes()
	return secp256k1.PrivKeyFromBytes(b[:])
}

// genDLEQ: the harness's own DLEQ generator (for the wrong-key mint actor).
func genDLEQ(a *Scalar, B_, C_ *secp256k1.PublicKey) (string, string) {
	r := randScalar()
	R1 := mulG(r)
	R2, _ := mulP(r, B_)
	A := mulG(a)
	var cat string
	for _, p := range []*secp256k1.PublicKey{R1, R2, A, C_} {
		cat += hex.EncodeToString(p.SerializeUncompressed())
	}
	h := sha256.Sum256([]byte(cat))
	e := scalarFromBytes(h[:])
	var s Scalar
	s.Set(e)
	s.Mul(a)
	s.Add(r)
	return hex.EncodeToString(h[:]), scalarHex(&s)
}

// StepSharedOutputRace: two paid quotes (1 sat and 2 sat), two concurrent mint requests that carry the
// SAME blinded message under different amounts. Whatever the mint hands out or later returns through
// restore for that message must be a signature by the key of the (keyset, amount) it names, with a
// DLEQ proof that verifies under that key.
func (ww *WW) StepSharedOutputRace(m *MW) {
	W := ww.W
	mint := "A"
	ks := W.ActiveKeyset(mint)
	ww.rc.Op("shared-output race (amounts 1 and 2)")
	var q1, q2 *MintQuote
	a := NewActor(W, m.name("sor"))
	ww.rc.Quietly(func() {
		if q1, _ = a.ReqMintQuote(mint, 1, false); q1 != nil {
			W.LN.PayExternal(q1.Hash)
		}
		if q2, _ = a.ReqMintQuote(mint, 2, false); q2 != nil {
			W.LN.PayExternal(q2.Hash)
		}
	})
	if q1 == nil || q2 == nil {
		return
	}
	o := W.NewOutput(1, ks.ID, "")
	ww.rc.S.BeginEpisode()
	for k, q := range []*MintQuote{q1, q2} {
		k, q := k, q
		name := fmt.Sprintf("%s.%d", m.name("sor"), k)
		ww.rc.S.Go(name, W.Ext, true, func() {
			b := NewActor(W, name)
			b.Post(mint, "/v1/mint/bolt11", map[string]any{"quote": q.ID, "outputs": []any{map[string]any{"amount": uint64(k + 1), "id": o.ID, "B_": o.B_}}})
		})
	}
	ww.rc.S.Drive(false)
	ww.rc.S.Probe("c10_shared_output_race")
	var r *Resp
	ww.rc.Quietly(func() { r = a.Restore(mint, []*HOutput{o}) })
	if r == nil || !r.OK() {
		return
	}
	sigs, _ := r.Body["signatures"].([]any)
	oracle := W.oracleKeysets(mint)
	for _, sv := range sigs {
		sm, _ := sv.(map[string]any)
		id, _ := sm["id"].(string)
		amtF, _ := sm["amount"].(float64)
		c_, _ := sm["C_"].(string)
		d := oracle[id]
		if d == nil || d.Priv[uint64(amtF)] == nil {
			continue
		}
		k := d.Priv[uint64(amtF)]
		B_, e1 := parsePoint(o.B_)
		C_, e2 := parsePoint(c_)
		if e1 != nil || e2 != nil {
			continue
		}
		if want, _ := mulP(k, B_); want == nil || pointHex(want) != pointHex(C_) {
			W.Book.Violate("C10.restored_inconsistent", "C_", "restore returns for a message that two racing requests carried a C_ that is not k*B_ for the key of (%s, %d)", id, uint64(amtF))
			continue
		}
		if dq, ok := sm["dleq"].(map[string]any); ok {
			e, _ := dq["e"].(string)
			sc, _ := dq["s"].(string)
			if !hVerifyDLEQ(e, sc, mulG(k), o.B_, c_) || !nut12.VerifyBlindSignatureDLEQ(cashu.DLEQProof{E: e, S: sc}, mulG(k), o.B_, c_) {
				W.Book.Violate("C10.restored_inconsistent", "dleq", "restore returns for a message that two racing requests carried a DLEQ proof that does not verify under the published key of (%s, %d)", id, uint64(amtF))
			}
		}
		ww.rc.S.Probe("c10_shared_output_restore_checked")
	}
}

// MonitorSigs checks every signature the Book has not yet examined with the key oracle and with
// gonuts' own verification functions.
func (ww *WW) MonitorSigs() {
	W := ww.W
	for _, mint := range ww.Mints {
		mb := W.Book.Mint(mint)
		ks := W.oracleKeysets(mint)
		for ; ww.sigMon[mint] < len(mb.SigSeq); ww.sigMon[mint]++ {
			sg := mb.Sigs[mb.SigSeq[ww.sigMon[mint]]]
			d := ks[sg.ID]
			if d == nil {
				continue
			}
			k := d.Priv[sg.Amount]
			if k == nil {
				continue
			}
			B_, err1 := parsePoint(sg.B_)
			C_, err2 := parsePoint(sg.C_)
			if err1 != nil || err2 != nil {
				W.Book.Violate("C10.malformed", sg.Via, "signature with malformed points returned by %s", sg.Via)
				continue
			}
			want, _ := mulP(k, B_)
			ww.rc.S.Probe("c10_sig_algebra_checked")
			if want == nil || pointHex(want) != pointHex(C_) {
				W.Book.Violate("C10.not_kB", sg.Via, "C_ returned by %s is not k*B_ for the key of (%s, %d)", sg.Via, sg.ID, sg.Amount)
				continue
			}
			K := mulG(k)
			if sg.E != "" {
				if !nut12.VerifyBlindSignatureDLEQ(cashu.DLEQProof{E: sg.E, S: sg.S}, K, sg.B_, sg.C_) {
					W.Book.Violate("C10.lib_rejects_dleq", sg.Via, "nut12.VerifyBlindSignatureDLEQ rejects the mint's own DLEQ proof")
				}
				// tamper: each of e, s, key, B_, C_ changed -> verification must fail
				other := mulG(d.Priv[altAmount(sg.Amount)])
				tam := []struct {
					name       string
					e, s, b, c string
					key        *secp256k1.PublicKey
				}{
					{"e", flipHex(sg.E), sg.S, sg.B_, sg.C_, K},
					{"s", sg.E, flipHex(sg.S), sg.B_, sg.C_, K},
					{"key", sg.E, sg.S, sg.B_, sg.C_, other},
					{"B_", sg.E, sg.S, pointHex(mulG(randScalar())), sg.C_, K},
					{"C_", sg.E, sg.S, sg.B_, pointHex(mulG(randScalar())), K},
				}
				t := tam[ww.T.Choose("c10.tamper", len(tam))]
				if nut12.VerifyBlindSignatureDLEQ(cashu.DLEQProof{E: t.e, S: t.s}, t.key, t.b, t.c) {
					W.Book.Violate("C10.tamper_accepted", "blind:"+t.name, "DLEQ verification still accepts after changing %s", t.name)
				}
				if hVerifyDLEQ(t.e, t.s, t.key, t.b, t.c) {
					harnessf("harness DLEQ verifier accepts tampered %s", t.name)
				}
				ww.rc.S.Probe("c10_tamper_checked")
			}
			// unblinding: if the harness knows (secret, r) of this output
			if o := W.Outputs[sg.B_]; o != nil {
				C, err := hUnblind(sg.C_, o.R, K)
				if err == nil {
					Cp, _ := parsePoint(C)
					if !crypto.Verify(o.Secret, scalarToPriv(k), Cp) {
						W.Book.Violate("C10.unblind_not_verifying", sg.Via, "unblinded signature does not verify under its key (secret len %d)", len(o.Secret))
					}
					if crypto.Verify(o.Secret, scalarToPriv(d.Priv[altAmount(sg.Amount)]), Cp) {
						W.Book.Violate("C10.verifies_under_other_key", sg.Via, "unblinded signature verifies under the key of another denomination")
					}
					// "... and fails verification under any other key, secret or point": the points and
					// keys most closely related to the right ones
					var negC secp256k1.JacobianPoint
					Cp.AsJacobian(&negC)
					negC.Y.Negate(1).Normalize()
					negC.ToAffine()
					if crypto.Verify(o.Secret, scalarToPriv(k), secp256k1.NewPublicKey(&negC.X, &negC.Y)) {
						W.Book.Violate("C10.verifies_other_point", sg.Via+"|-C", "the negated point -C verifies as signature under the same key and secret")
					}
					var negK secp256k1.ModNScalar
					negK.Set(k).Negate()
					if crypto.Verify(o.Secret, scalarToPriv(&negK), Cp) {
						W.Book.Violate("C10.verifies_under_other_key", sg.Via+"|n-k", "the signature verifies under the negated key n-k")
					}
					if crypto.Verify(o.Secret+"x", scalarToPriv(k), Cp) {
						W.Book.Violate("C10.verifies_other_secret", sg.Via, "the signature verifies for another secret")
					}
					ww.rc.S.Probe("c10_related_point_key_checked")
					// gonuts' own unblinding agrees
					lib := crypto.UnblindSignature(C_, scalarToPriv(o.R), K)
					if pointHex(lib) != C {
						W.Book.Violate("C10.unblind_differs", sg.Via, "crypto.UnblindSignature differs from C_ - rK")
					}
					ww.rc.S.Probe("c10_unblind_checked")
				}
			}
		}
	}
}

func altAmount(a uint64) uint64 {
	if a > 1 {
		return a / 2
	}
	return 2
}

func flipHex(h string) string {
	if len(h) == 0 {
		return "00"
	}
	b := []byte(h)
	i := len(b) / 2
	if b[i] == '0' {
		b[i] = '1'
	} else {
		b[i] = '0'
	}
	return string(b)
}

// CheckTokenDLEQ: every proof a wallet hands out with DLEQ is accepted by a third party under the
// published key and rejected after any single-field alteration.
func (ww *WW) CheckTokenDLEQ(tok *OutToken) {
	W := ww.W
	mb := W.Book.Mint(tok.Mint)
	for _, p := range tok.Proofs {
		if p.DLEQ == nil || p.DLEQ.R == "" {
			continue
		}
		ks := mb.Keysets[p.Id]
		if ks == nil {
			continue
		}
		K, err := parsePoint(ks.Keys[p.Amount])
		if err != nil {
			continue
		}
		ww.rc.S.Probe("c10_token_dleq_checked")
		if !nut12.VerifyProofDLEQ(p, K) {
			W.Book.Violate("C10.token_dleq_rejected", "token", "a third party rejects the DLEQ proof of a proof handed out by the wallet (keyset %s amount %d)", p.Id, p.Amount)
			continue
		}
		// the harness's own check: B' = Y + rG, C' = C + rA
		rb, _ := hex.DecodeString(p.DLEQ.R)
		r := scalarFromBytes(rb)
		B_, _ := hBlind(p.Secret, r)
		Cp, err := parsePoint(p.C)
		if err == nil {
			rA, _ := mulP(r, K)
			C_, _ := addP(Cp, rA)
			if C_ == nil || !hVerifyDLEQ(p.DLEQ.E, p.DLEQ.S, K, B_, pointHex(C_)) {
				W.Book.Violate("C10.token_dleq_invalid", "token", "the DLEQ proof attached to a token does not verify under the published key")
			}
		}
		otherK, _ := parsePoint(ks.Keys[altAmount(p.Amount)])
		alter := func(name string, f func(q *cashu.Proof) *secp256k1.PublicKey) {
			q := p
			d := *p.DLEQ
			q.DLEQ = &d
			key := f(&q)
			if key == nil {
				key = K
			}
			if nut12.VerifyProofDLEQ(q, key) {
				W.Book.Violate("C10.tamper_accepted", "proof:"+name, "VerifyProofDLEQ still accepts after changing %s", name)
			}
		}
		switch ww.T.Choose("c10.ptamper", 7) {
		case 0:
			alter("e", func(q *cashu.Proof) *secp256k1.PublicKey { q.DLEQ.E = flipHex(q.DLEQ.E); return nil })
		case 1:
			alter("s", func(q *cashu.Proof) *secp256k1.PublicKey { q.DLEQ.S = flipHex(q.DLEQ.S); return nil })
		case 2:
			alter("r", func(q *cashu.Proof) *secp256k1.PublicKey { q.DLEQ.R = flipHex(q.DLEQ.R); return nil })
		case 3:
			alter("key", func(q *cashu.Proof) *secp256k1.PublicKey { return otherK })
		case 4:
			alter("C", func(q *cashu.Proof) *secp256k1.PublicKey { q.C = pointHex(mulG(randScalar())); return nil })
		case 5:
			alter("secret", func(q *cashu.Proof) *secp256k1.PublicKey { q.Secret += "0"; return nil })
		case 6:
			alter("amount", func(q *cashu.Proof) *secp256k1.PublicKey { q.Amount = altAmount(q.Amount); return otherK })
		}
		ww.rc.S.Probe("c10_token_tamper_checked")
	}
	// the whole token the way a third party checks it against a keyset (nut12.VerifyProofsDLEQ): accepted
	// as handed out, refused once one proof claims another amount - a denomination or not
	if len(tok.Proofs) > 0 && keysetsOf(tok.Proofs) == 1 && tok.Proofs[0].DLEQ != nil && tok.Proofs[0].DLEQ.R != "" {
		if ks := mb.Keysets[tok.Proofs[0].Id]; ks != nil {
			wk := crypto.WalletKeyset{Id: tok.Proofs[0].Id, PublicKeys: map[uint64]*secp256k1.PublicKey{}}
			for a, kh := range ks.Keys {
				if pk, err := parsePoint(kh); err == nil {
					wk.PublicKeys[a] = pk
				}
			}
			all := true
			for _, p := range tok.Proofs {
				all = all && p.DLEQ != nil && p.DLEQ.R != ""
			}
			if all && len(wk.PublicKeys) > 0 {
				ww.rc.S.Probe("c10_token_keyset_level_checked")
				if !nut12.VerifyProofsDLEQ(tok.Proofs, wk) {
					W.Book.Violate("C10.token_dleq_rejected", "token-keyset", "nut12.VerifyProofsDLEQ rejects a token handed out by the wallet")
				}
				vi := ww.T.Choose("c10.ktamper.victim", len(tok.Proofs))
				for _, na := range []uint64{tok.Proofs[vi].Amount * 3, altAmount(tok.Proofs[vi].Amount), 0, tok.Proofs[vi].Amount | 1<<60} {
					cp := make(cashu.Proofs, len(tok.Proofs))
					copy(cp, tok.Proofs)
					cp[vi].Amount = na
					if nut12.VerifyProofsDLEQ(cp, wk) {
						W.Book.Violate("C10.tamper_accepted", "token:amount", "nut12.VerifyProofsDLEQ still accepts a token after the amount of proof %d was changed from %d to %d", vi, tok.Proofs[vi].Amount, na)
					}
				}
			}
		}
	}
}

// StepTamperedToken: the token channel alters one DLEQ field of one proof (optionally removing the DLEQ of an
// earlier proof, as a co-signer handing over a partial token would); the receiving wallet must refuse it.
func (ww *WW) StepTamperedToken() {
	var tok *OutToken
	for _, t := range ww.Tokens {
		if !t.Claimed && t.Kind == "plain" && len(t.Proofs) >= 1 && t.Proofs[0].DLEQ != nil && t.Proofs[0].DLEQ.R != "" {
			tok = t
		}
	}
	if tok == nil {
		ww.forceDLEQ = true
		tok = ww.StepSend()
		ww.forceDLEQ = false
		if tok == nil || tok.Proofs[0].DLEQ == nil {
			return
		}
	}
	var to string
	for _, w := range ww.Wallets {
		if n := ww.node(w); w != tok.From && n != nil && n.W != nil {
			to = w
		}
	}
	if to == "" {
		return
	}
	ps := make(cashu.Proofs, len(tok.Proofs))
	copy(ps, tok.Proofs)
	victim := ww.T.Choose("tt.victim", len(ps))
	d := *ps[victim].DLEQ
	field := ww.T.Choose("tt.field", 3)
	// the alteration: one hex digit changed, or bytes appended (a verifier that reads only the
	// first 32 bytes of a scalar would not notice those)
	alter := flipHex
	mode := ww.T.Choose("tt.mode", 3)
	if v, ok := ww.rc.Spec.Params["ttmode"]; ok {
		mode = v
	}
	switch mode {
	case 1:
		alter = func(h string) string { return h + "ff" }
	case 2:
		alter = func(h string) string { return h + "0000" }
	}
	switch field {
	case 0:
		d.E = alter(d.E)
	case 1:
		d.S = alter(d.S)
	case 2:
		d.R = alter(d.R)
	}
	ps[victim].DLEQ = &d
	stripEarlier := victim > 0 && ww.T.Chance("tt.strip", 1, 2)
	if stripEarlier {
		for j := 0; j < victim; j++ {
			ps[j].DLEQ = nil
		}
	}
	ww.op(fmt.Sprintf("tampered-token field=%d mode=%d victim=%d/%d stripEarlier=%v", field, mode, victim, len(ps), stripEarlier))
	s, err := MakeToken(ps, ww.mintURL(tok.Mint), keysetsOf(ps) == 1 && ww.T.Chance("tt.v4", 1, 2), true)
	if err != nil {
		return
	}
	var rerr error
	ww.W.WalletOp(to, ww.name("tt."+to), nil, func(wl *wallet.Wallet) {
		t, derr := cashu.DecodeToken(s)
		if derr != nil {
			rerr = derr
			return
		}
		_, rerr = wl.Receive(t, false)
	})
	ww.rc.S.Probe("c10_tampered_token_delivered")
	ww.rc.Nontrivial = true
	if rerr == nil {
		tok.Claimed = true
		ww.W.Book.Violate("C10.tampered_token_accepted", fmt.Sprintf("field=%d|mode=%d|stripEarlier=%v", field, mode, stripEarlier),
			"wallet received a token in which the DLEQ proof of proof %d was altered (field %d, mode %d: 0 digit changed, 1/2 bytes appended; earlier proofs without DLEQ: %v)", victim, field, mode, stripEarlier)
	}
}

// corruptor returns a response hook altering one field of one signature.
func (ww *WW) corruptor(mint string, cv int) func(path string, body []byte) []byte {
	W := ww.W
	return func(path string, body []byte) []byte {
		if !(strings.HasPrefix(path, "/v1/swap") || strings.HasPrefix(path, "/v1/mint/bolt11")) {
			return body
		}
		var m map[string]any
		if json.Unmarshal(body, &m) != nil {
			return body
		}
		sigs, _ := m["signatures"].([]any)
		if len(sigs) == 0 {
			return body
		}
		sm, _ := sigs[len(sigs)/2].(map[string]any)
		if sm == nil {
			return body
		}
		d, _ := sm["dleq"].(map[string]any)
		switch cv {
		case 0:
			sm["C_"] = pointHex(mulG(randScalar()))
		case 1:
			if d != nil {
				d["e"] = flipHex(fmt.Sprint(d["e"]))
			}
		case 2:
			if d != nil {
				d["s"] = flipHex(fmt.Sprint(d["s"]))
			}
		case 3:
			if a, ok := sm["amount"].(float64); ok {
				sm["amount"] = float64(altAmount(uint64(a)))
			}
		case 4, 5:
			// wrong-key mint: signed with the key of another denomination (or another keyset index),
			// with an honest DLEQ proof for *that* key
			id, _ := sm["id"].(string)
			a, _ := sm["amount"].(float64)
			ks := W.oracleKeysets(mint)[id]
			if ks == nil {
				return body
			}
			kk := ks.Priv[altAmount(uint64(a))]
			if cv == 5 {
				kk = randScalar()
			}
			// find B_ from the request is not possible here: recompute from C_ = kB_ => B_ = k^-1 C_
			Cold, err := parsePoint(fmt.Sprint(sm["C_"]))
			if err != nil {
				return body
			}
			var kinv Scalar
			kinv.Set(ks.Priv[uint64(a)])
			kinv.InverseNonConst()
			B_, _ := mulP(&kinv, Cold)
			Cnew, _ := mulP(kk, B_)
			sm["C_"] = pointHex(Cnew)
			e, s := genDLEQ(kk, B_, Cnew)
			sm["dleq"] = map[string]any{"e": e, "s": s}
		}
		out, err := json.Marshal(m)
		if err != nil {
			return body
		}
		return out
	}
}

// StepCorrupted: a mint -> wallet response is corrupted on the wire; the wallet operation must fail
// and no proof derived from the corrupted signature may be stored or counted.
func (ww *WW) StepCorrupted(cv, opk int) {
	W := ww.W
	w := ww.pickWallet()
	mint := mintNameOfURL(ww.node(w).Mint)
	if ww.balanceAt(w, mint) < 16 {
		ww.StepMint()
	}
	ww.op(fmt.Sprintf("corrupted-response kind=%d op=%d", cv, opk))
	W.Net.Faults[w] = &NetFault{CorruptResp: ww.corruptor(mint, cv)}
	before := W.S.Stats["fault_net_corrupt_resp"]
	var err error
	var tok *OutToken
	if opk == 2 {
		for _, t := range ww.Tokens {
			if !t.Claimed && t.Kind == "plain" && t.From != w && t.Mint == mint {
				tok = t
			}
		}
		if tok == nil {
			opk = 1
		}
	}
	ww.W.WalletOp(w, ww.name("corr."+w), nil, func(wl *wallet.Wallet) {
		switch opk {
		case 0: // mint: quote request consumes the fault slot harmlessly? no: arm it for the mint call
			q, e := wl.RequestMint(21, ww.mintURL(mint))
			if e != nil {
				err = e
				return
			}
			if mq := W.Book.Mint(mint).MQ[q.Quote]; mq != nil {
				W.LN.PayExternal(mq.Hash)
			}
			W.Net.Faults[w] = &NetFault{CorruptResp: ww.corruptor(mint, cv)}
			_, err = wl.MintTokens(q.Quote)
		case 1: // send that needs a swap
			W.Net.Faults[w] = &NetFault{CorruptResp: ww.corruptor(mint, cv)}
			_, err = wl.Send(3, ww.mintURL(mint), true)
		case 2:
			t, _ := cashu.DecodeToken(tok.Str)
			W.Net.Faults[w] = &NetFault{CorruptResp: ww.corruptor(mint, cv)}
			_, err = wl.Receive(t, false)
		}
	})
	delete(W.Net.Faults, w)
	fired := W.S.Stats["fault_net_corrupt_resp"] > before
	if !fired {
		return
	}
	ww.rc.S.Probe("c10_corrupted_response_delivered")
	ww.rc.Nontrivial = true
	if err == nil {
		W.Book.Violate("C10.corruption_undetected", fmt.Sprintf("kind=%d|op=%d", cv, opk), "wallet operation %d succeeded although the mint's response was corrupted (kind %d)", opk, cv)
	}
	ww.CheckStoredGenuine("after corrupted response")
}

// CheckStoredGenuine: every proof a wallet stores as spendable is a genuine signature at its amount.
func (ww *WW) CheckStoredGenuine(when string) {
	W := ww.W
	for _, w := range ww.Wallets {
		n := ww.node(w)
		if n == nil || n.Inner == nil || n.W == nil {
			continue
		}
		for _, p := range n.Inner.GetProofs() {
			for _, m := range ww.Mints {
				if _, ok := W.Book.Mint(m).Keysets[p.Id]; ok {
					ww.rc.S.Probe("c10_stored_proof_checked")
					if ok, why := W.GenuineProof(m, JProof{Amount: p.Amount, ID: p.Id, Secret: p.Secret, C: p.C}); !ok {
						W.Book.Violate("C10.bad_proof_stored", when, "%s stores a proof that is not a genuine signature (%s) %s", w, why, when)
					}
				}
			}
		}
	}
}

// StepEdge: edge values through the real mint: empty and 512-byte secrets, r = 1 and r = n-1.
func (ww *WW) StepEdge(m *MW) {
	W := ww.W
	mint := ww.Mints[0]
	ks := W.ActiveKeyset(mint)
	ww.op("edge-values")
	var one Scalar
	one.SetInt(1)
	nm1 := negS(&one)
	cases := []struct {
		secret string
		r      *Scalar
	}{
		{"", randScalar()},
		{strings.Repeat("s", 512), randScalar()},
		{randHex(32), &one},
		{randHex(32), nm1},
		{"", &one},
	}
	c := cases[ww.T.Choose("edge.case", len(cases))]
	// a secret can be spent once: the empty secret once per run, long secrets made unique
	if c.secret == "" {
		if ww.emptyUsed {
			c = cases[2]
		}
		ww.emptyUsed = true
	} else if len(c.secret) == 512 {
		c.secret = randHex(256)
	}
	W.S.BeginEpisode()
	W.S.Run1(ww.name("edge"), W.Ext, func() {
		ins := m.pickProofs(mint, 1)
		if ins == nil {
			return
		}
		fee := m.feeFor(mint, ins)
		if SumH(ins) <= fee+1 {
			return
		}
		B_, err := hBlind(c.secret, c.r)
		if err != nil {
			return
		}
		o := &HOutput{Amount: 1, ID: ks.ID, B_: B_, Secret: c.secret, R: c.r}
		W.Outputs[B_] = o
		W.OutOrder = append(W.OutOrder, B_)
		rest := W.NewOutputs(Split(SumH(ins)-fee-1), ks.ID)
		ps, r := m.User.Swap(mint, ins, append([]*HOutput{o}, rest...))
		if !r.OK() {
			if r.Code == 10002 || strings.Contains(r.Detail, "already signed") {
				return
			}
			W.Book.Violate("C10.edge_refused", fmt.Sprintf("secretlen=%d", len(c.secret)), "mint refuses to sign an output for an edge value (secret len %d): %v", len(c.secret), r)
			return
		}
		m.Spent[mint] = append(m.Spent[mint], ins...)
		ww.rc.S.Probe("c10_edge_signed")
		// spend it again: the unblinded edge proof must be honoured
		if len(ps) > 0 {
			edge := ps[0]
			f2 := m.feeFor(mint, []*HProof{edge})
			if edge.Amount > f2 {
				_, r2 := m.User.Swap(mint, []*HProof{edge}, W.NewOutputs(Split(edge.Amount-f2), ks.ID))
				if !r2.OK() {
					W.Book.Violate("C10.edge_not_honoured", fmt.Sprintf("secretlen=%d", len(c.secret)), "proof unblinded from an edge-value signature is refused: %v", r2)
				} else {
					m.Spent[mint] = append(m.Spent[mint], edge)
					ww.rc.S.Probe("c10_edge_spent")
				}
			}
		}
	})
	ww.rc.Nontrivial = true
}

// c10MeltBack: a melt over several inputs stays pending, the payment fails, the wallet takes the
// proofs back (CheckMeltQuoteState or ReclaimUnspentProofs) and then sends nearly everything with DLEQ.
func c10MeltBack(ww *WW, k int) {
	w := ww.Wallets[0]
	mint := mintNameOfURL(ww.node(w).Mint)
	ww.mintInto(w, 63)
	bal := ww.balanceAt(w, mint)
	amount := bal/2 + 3 // several inputs
	inv := ww.W.LN.NewExternalInvoice(amount * 1000)
	ww.W.LN.Scripts[inv.Hash] = &LNScript{Pay: "pending"}
	ww.op("w.melt")
	var qid string
	ww.W.WalletOp(w, ww.name("melt."+w), nil, func(wl *wallet.Wallet) {
		if q, e := wl.RequestMeltQuote(inv.Bolt11, ww.mintURL(mint)); e == nil {
			qid = q.Quote
			wl.Melt(q.Quote)
		}
	})
	if qid == "" {
		return
	}
	ww.PendQ[w] = append(ww.PendQ[w], qid)
	for _, key := range ww.W.LN.InflightKeys() {
		ww.W.LN.ResolveInflight(key, false)
	}
	if k%2 == 0 {
		ww.op("w.checkmelt")
		ww.W.WalletOp(w, ww.name("chk."+w), nil, func(wl *wallet.Wallet) { wl.CheckMeltQuoteState(qid) })
	} else {
		ww.op("w.reclaim remove=false")
		ww.W.WalletOp(w, ww.name("reclaim."+w), nil, func(wl *wallet.Wallet) { wl.ReclaimUnspentProofs() })
	}
	ww.rc.S.Probe("c10_failed_melt_proofs_back")
	// hand out what came back: sends of single denominations the wallet holds need no swap
	n := ww.node(w)
	held := map[uint64]bool{}
	for _, p := range n.View().Proofs {
		held[p.Amount] = true
	}
	sent := 0
	for _, d := range []uint64{32, 16, 8, 4, 2, 1} {
		if !held[d] || sent >= 3 {
			continue
		}
		sent++
		ww.step++
		ww.op("w.send fees=false")
		var ps cashu.Proofs
		var e error
		ww.W.WalletOp(w, ww.name("send."+w), nil, func(wl *wallet.Wallet) { ps, e = wl.Send(d, ww.mintURL(mint), false) })
		if e != nil {
			continue
		}
		str, terr := MakeToken(ps, ww.mintURL(mint), false, true)
		if terr != nil {
			continue
		}
		ww.Tokens = append(ww.Tokens, &OutToken{Str: str, Proofs: ps, From: w, Mint: mint, Amount: d, Kind: "plain"})
	}
}

func runC10(rc *RunCtx) {
	T := rc.T
	fee := c17Fees[T.Choose("cfg.fee", 3)]
	ww := rc.NewWalletWorld(LNConfig{FeePolicy: 1}, []uint{fee}, 2)
	rc.W.CheckGenuine = true
	ww.sigMon = map[string]int{}
	m := NewMW(rc, "A")
	m.Fees = map[string][]uint64{"A": {uint64(fee)}}
	rc.Quietly(func() { m.User.Fund("A", 127) })
	for i := range ww.Wallets {
		ww.step = -1 - i
		ww.StepMint()
	}
	cv, hasCv := rc.Spec.Params["corrupt"]
	edge := rc.P("edge", 0) == 1
	rotdleq := rc.P("rotdleq", 0) == 1
	rotmixed := rc.P("rotdleq", 0) == 2
	tokDone := map[*OutToken]bool{}
	rc.StepLoop(3, 12, func(i int) {
		ww.step = i
		m.step = i
		switch {
		case hasCv:
			if i == 0 {
				ww.StepSend() // something to receive
			}
			ww.StepCorrupted(cv, rc.P("op", 0))
		case rc.P("tampered", 0) == 1:
			ww.StepTamperedToken()
		case edge:
			ww.StepEdge(m)
		case rotmixed:
			// after a rotation the sender holds proofs of the old and the new keyset and sends nearly
			// everything as one token with DLEQ proofs (old-keyset proofs first): every proof
			// verifies under its own keyset's key, so the recipient must accept it
			if i == 0 {
				ww.forceDLEQ = true
				ww.StepRotate([]uint64{uint64(fee)})
				for _, w := range ww.Wallets {
					_ = w
					ww.StepMint()
				}
				ww.forceSendAll = true
				ww.StepSend()
				ww.forceSendAll = false
			}
			ww.StepReceive()
		case rc.P("large", 0) == 1:
			// one mint request with hundreds of outputs: every signature, as returned and as restored
			// (before / after a restart), is checked by the signature monitors
			if i == 0 {
				m.StepLargeRequest([]int{170, 340}[rc.P("k", 0)%2], rc.P("k", 0) >= 2)
			} else {
				ww.Step(T.Pick("step.kind", 2, 5, 5, 2, 1, 0, 1, 0, 1))
			}
		case rc.P("meltback", 0) == 1:
			// proofs that were locked in a melt whose payment failed come back into the wallet from its
			// pending storage; sent on with their DLEQ proofs they must still verify for the recipient
			if i == 0 {
				c10MeltBack(ww, rc.P("k", 0))
			}
			ww.StepReceive()
		case rc.P("sor", 0) == 1:
			ww.StepSharedOutputRace(m)
		case rc.P("rotrace", 0) == 1:
			if i == 0 {
				m.StepRotateRuntimeConcurrent()
				ww.Rotated["A"]++
				ww.Fees["A"] = uint64(fee)
				rc.S.Probe("c10_rotation_racing_swap")
			} else {
				ww.Step(T.Pick("step.kind", 2, 5, 5, 2, 1, 0, 1, 0, 1))
			}
		case rotdleq:
			// a token with DLEQ from the old keyset must still be receivable after a rotation
			if i == 0 {
				ww.forceDLEQ = true
				ww.StepSend()
				ww.StepRotate([]uint64{uint64(fee)})
			}
			ww.StepReceive()
		default:
			switch T.Pick("c10.kind", 6, 3, 2, 1, 1, 2, 1, 1, 1, 1) {
			case 9:
				ww.StepSharedOutputRace(m)
			case 8:
				// the operator rotates the keyset on the running mint while a swap is in flight: whatever
				// is signed must be a signature by the key of the keyset the signature names
				if ww.Rotated["A"] == 0 {
					m.StepRotateRuntimeConcurrent()
					ww.Rotated["A"]++
					ww.Fees["A"] = uint64(fee)
					rc.S.Probe("c10_rotation_racing_swap")
				} else {
					m.StepFund()
				}
			case 6:
				// several mint requests (different outputs) for one paid quote, then a late one:
				// whatever is answered with signatures, they must be signatures on the outputs asked
				m.StepMintRace()
			case 7:
				m.StepFund()
			case 5:
				ww.StepTamperedToken()
			case 0:
				ww.Step(T.Pick("step.kind", 2, 5, 5, 2, 1, 0, 1, 0, 1))
			case 1:
				ww.StepCorrupted(T.Choose("corrupt.kind", c10NumCorrupt), T.Choose("corrupt.op", 3))
			case 2:
				ww.StepEdge(m)
			case 3:
				// restart: signatures persist; restore returns them unchanged (Book: C15.restore_*)
				rc.Quietly(func() {
					if err := rc.W.RestartMint("A", nil); err != nil {
						harnessf("restart: %v", err)
					}
					var outs []*HOutput
					mb := rc.W.Book.Mint("A")
					for _, b := range mb.SigSeq {
						if o := rc.W.Outputs[b]; o != nil && len(outs) < 40 {
							outs = append(outs, o)
						}
					}
					if len(outs) > 0 {
						m.User.Restore("A", outs)
					}
				})
				rc.S.Probe("c10_restart_restore")
			case 4:
				m.StepSwap()
			}
		}
		ww.MonitorSigs()
		for _, tok := range ww.Tokens {
			if !tokDone[tok] {
				tokDone[tok] = true
				ww.CheckTokenDLEQ(tok)
			}
		}
		ww.CheckStoredGenuine("step")
	})
	ww.MonitorSigs()
}
