package sim

import "runtime"

func runtimeStack(buf []byte) int { return runtime.Stack(buf, true) }
