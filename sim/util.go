package sim

import (
	"crypto/sha256"
	"runtime"
)

func runtimeStack(buf []byte) int { return runtime.Stack(buf, true) }

func hashBytes(b []byte) [32]byte { return sha256.Sum256(b) }
