package sim

import (
	"fmt"
	"strings"

	"github.com/elnosh/gonuts/cashu"
	"github.com/elnosh/gonuts/wallet"
)

// C19 — seed backup is complete: no counter is reused and restore recovers all funds.

func init() {
	Register(&Profile{Prop: "C19", Fatal: []string{"C19."}, Run: runC19, Core: coreC19})
}

var c19CrashOps = []string{"mint", "send", "receive", "melt"}

func coreC19(tier string) []RunSpec {
	var out []RunSpec
	// wallet crash at every storage/HTTP seam of mint / send / receive / melt
	maxK := 14
	if tier == "thorough" {
		maxK = 28
	}
	for oi := range c19CrashOps {
		for k := 1; k <= maxK; k++ {
			out = append(out, RunSpec{Profile: "core:crash:" + c19CrashOps[oi], Params: map[string]int{"crashop": oi, "k": k}})
		}
	}
	// lost responses / requests at the k-th HTTP request of each operation
	for oi := range c19CrashOps {
		for k := 1; k <= 8; k++ {
			out = append(out, RunSpec{Profile: "core:resploss:" + c19CrashOps[oi], Params: map[string]int{"crashop": oi, "k": k, "fkind": 1}})
		}
		for k := 1; k <= 4; k++ {
			out = append(out, RunSpec{Profile: "core:reqloss:" + c19CrashOps[oi], Params: map[string]int{"crashop": oi, "k": k, "fkind": 2}})
		}
	}
	// restore-then-continue-then-restore, and more than 300 outputs on one keyset
	out = append(out, RunSpec{Profile: "core:restore-continue", Params: map[string]int{"scenario": 1}})
	out = append(out, RunSpec{Profile: "core:restore-continue-rot", Params: map[string]int{"scenario": 1, "rot": 1}})
	out = append(out, RunSpec{Profile: "core:many-outputs", Params: map[string]int{"scenario": 2}})
	out = append(out, RunSpec{Profile: "core:many-outputs-then-rotation", Params: map[string]int{"scenario": 2, "rot": 1}})
	for k := 0; k < 2; k++ {
		out = append(out, RunSpec{Profile: "core:pending-across-rotation-reclaim", Params: map[string]int{"scenario": 5, "fee": 0, "k": k}})
	}
	// everything spent, then restore, continue, restore
	out = append(out, RunSpec{Profile: "core:refused-receives-then-restore", Params: map[string]int{"scenario": 6, "fee": 0}})
	out = append(out, RunSpec{Profile: "core:spend-all-restore", Params: map[string]int{"scenario": 4, "fee": 0}})
	out = append(out, RunSpec{Profile: "core:melt-all-restore", Params: map[string]int{"scenario": 4, "melt": 1, "fee": 0}})
	// the payee of a token is other software: it redeems the (plain) proofs with a witness string
	// attached, which the mint reports with their SPENT state; then the sender restores from the seed
	for wi := 0; wi < 3; wi++ {
		out = append(out, RunSpec{Profile: "core:outside-redeem-then-restore", Params: map[string]int{"scenario": 7, "fee": 0, "wit": wi}})
	}
	// whether the wallet ends up holding the second spelling depends on the run's other seeded choices
	// (round 3: seeds 3 and 82 reached it, seed 1 did not), so each spelling is run under four tapes
	for v := 0; v < 4; v++ {
		for k := 0; k < 3; k++ {
			out = append(out, RunSpec{Profile: "core:token-with-respelled-mint-url", Params: map[string]int{"scenario": 8, "fee": 0, "k": k, "v": v}})
		}
	}
	for k := 0; k < 2; k++ {
		out = append(out, RunSpec{Profile: "core:restore-at-batch-boundary", Params: map[string]int{"scenario": 9, "fee": 0, "k": k}})
	}
	out = append(out, RunSpec{Profile: "core:live-proofs-behind-300-spent-outputs", Params: map[string]int{"scenario": 10, "fee": 0}})
	// known finding: SIG_ALL token from an untrusted mint, swap-to-trusted fails, received again
	out = append(out, RunSpec{Profile: "core:sigall-crossmint-again", Params: map[string]int{"scenario": 3, "mints": 2, "fee": 0, "fee2": 0}})
	return out
}

// witness strings other software may attach to plain inputs
var c19Witnesses = []string{"", `{"signatures":[]}`, "x"}

func runC19(rc *RunCtx) {
	T := rc.T
	fee := c17Fees[T.Choose("cfg.fee", 3)]
	if v, ok := rc.Spec.Params["fee"]; ok {
		fee = c17Fees[v]
	}
	ln := LNConfig{FeePolicy: 1 + T.Choose("cfg.feepol", 3), PayOutcomeMix: T.Choose("cfg.mix", 2)}
	if _, ok := rc.Spec.Params["crashop"]; ok {
		ln.PayOutcomeMix = 0
	}
	fees := []uint{fee}
	_, fixedScenario := rc.Spec.Params["scenario"]
	_ = fixedScenario
	_, crashScenario := rc.Spec.Params["crashop"]
	if rc.P("mints", 0) == 2 || (!fixedScenario && !crashScenario && T.Chance("cfg.mints2", 1, 3)) {
		// two mints: receives from an untrusted mint with swap-to-trusted, mint-to-mint swaps
		f2 := T.Choose("cfg.fee2", 3)
		if v, ok := rc.Spec.Params["fee2"]; ok {
			f2 = v
		}
		fees = append(fees, c17Fees[f2])
	}
	ww := rc.NewWalletWorld(ln, fees, 2)
	for i := range ww.Wallets {
		ww.step = -1 - i
		ww.StepMint()
	}
	checked := ww.CheckCounters(0)
	if oi, ok := rc.Spec.Params["crashop"]; ok {
		c19Crash(ww, c19CrashOps[oi], rc.P("k", 1))
		return
	}
	switch rc.P("scenario", 0) {
	case 1:
		c19RestoreContinue(ww, rc.P("rot", 0) == 1)
		return
	case 2:
		c19ManyOutputs(ww, rc.P("rot", 0) == 1)
		return
	case 6:
		// a long run of receives the mint refuses (the token was redeemed before), then ordinary use, then
		// a restore from the seed: operations that obtained nothing must not move the seed's outputs out
		// of reach of the restore scan
		a, b := ww.Wallets[0], ww.Wallets[1]
		mint := mintNameOfURL(ww.node(a).Mint)
		ww.step = 0
		ww.rc.S.MaxSteps += 60000
		ww.mintInto(a, 32767)
		var tokStr string
		ww.op("w.send fees=false")
		ww.W.WalletOp(a, ww.name("send."+a), nil, func(wl *wallet.Wallet) {
			if ps, e := wl.Send(32767, ww.mintURL(mint), false); e == nil {
				tokStr, _ = MakeToken(ps, ww.mintURL(mint), false, false)
			}
		})
		if tokStr == "" {
			return
		}
		recv := func(label string) {
			ww.op(label)
			ww.W.WalletOp(b, ww.name("recv."+b), nil, func(wl *wallet.Wallet) {
				if tk, e := cashu.DecodeToken(tokStr); e == nil {
					wl.Receive(tk, false)
				}
			})
		}
		recv("w.receive plain sigall=false crossmint=false")
		for i := 0; i < 28; i++ {
			ww.step++
			recv("w.receive(again, refused)")
		}
		checked = ww.CheckCounters(checked)
		ww.mintInto(b, 64)
		ww.mintInto(b, 37)
		checked = ww.CheckCounters(checked)
		ww.Settle()
		ww.restoreWallet(b, false, "after refused receives")
		ww.rc.S.Probe("c19_refused_receives_then_restore")
		ww.rc.Nontrivial = true
		return
	case 5:
		// proofs stay pending (a melt in flight) while the mint rotates its keyset; the payment fails,
		// the wallet reclaims them (outputs on the NEW keyset) and goes on: no counter may be reused
		w := ww.Wallets[0]
		mint := mintNameOfURL(ww.node(w).Mint)
		ww.step = 0
		ww.W.LN.ForceNextPay = "pending"
		inv := ww.W.LN.NewExternalInvoice(20 * 1000)
		ww.op("w.melt")
		ww.W.WalletOp(w, ww.name("melt."+w), nil, func(wl *wallet.Wallet) {
			if q, e := wl.RequestMeltQuote(inv.Bolt11, ww.mintURL(mint)); e == nil {
				ww.PendQ[w] = append(ww.PendQ[w], q.Quote)
				wl.Melt(q.Quote)
			}
		})
		ww.W.LN.ForceNextPay = ""
		ww.StepRotate([]uint64{0, 100})
		mintSome := func(amount uint64, label string) {
			ww.op(label)
			ww.W.WalletOp(w, ww.name("m."+w), nil, func(wl *wallet.Wallet) {
				q, e := wl.RequestMint(amount, ww.mintURL(mint))
				if e != nil {
					return
				}
				if mq := ww.W.Book.Mint(mint).MQ[q.Quote]; mq != nil {
					ww.W.LN.PayExternal(mq.Hash)
				}
				wl.MintTokens(q.Quote)
			})
		}
		mintSome(33, "w.mint(after rotation)")
		checked = ww.CheckCounters(checked)
		for _, k := range ww.W.LN.InflightKeys() {
			ww.W.LN.ResolveInflight(k, false)
		}
		ww.op("w.reclaim remove=false")
		ww.W.WalletOp(w, ww.name("reclaim."+w), nil, func(wl *wallet.Wallet) { wl.ReclaimUnspentProofs() })
		checked = ww.CheckCounters(checked)
		mintSome(21, "w.mint(after reclaim)")
		checked = ww.CheckCounters(checked)
		ww.Settle()
		ww.restoreWallet(w, false, "pending across rotation")
		rc.S.Probe("c19_pending_across_rotation")
		rc.Nontrivial = true
		return
	case 4:
		c19SpendAllRestore(ww, rc.P("melt", 0) == 1)
		return
	case 9:
		c19ExactBatch(ww, uint32(100*(1+rc.P("k", 0))))
		return
	case 10:
		// more than 300 consecutive outputs of the seed are SPENT (everything was sent on and redeemed),
		// the live proofs sit behind them: the restore scan must not take a run of spent outputs for the end
		a, b := ww.Wallets[0], ww.Wallets[1]
		mint := mintNameOfURL(ww.node(a).Mint)
		ww.step = 0
		ww.rc.S.MaxSteps += 90000
		for i := 0; i < 52; i++ {
			ww.step++
			ww.mintInto(a, 63) // 6 outputs each
		}
		bal := ww.balanceAt(a, mint)
		var ps cashu.Proofs
		ww.op("w.send fees=false")
		ww.W.WalletOp(a, ww.name("sendall."+a), nil, func(wl *wallet.Wallet) { ps, _ = wl.Send(bal, ww.mintURL(mint), false) })
		if len(ps) == 0 {
			return
		}
		str, _ := MakeToken(ps, ww.mintURL(mint), false, false)
		ww.Tokens = append(ww.Tokens, &OutToken{Str: str, Proofs: ps, From: a, Mint: mint, Amount: ps.Amount(), Kind: "plain"})
		ww.op("w.receive plain sigall=false crossmint=false")
		ww.W.WalletOp(b, ww.name("recvall."+b), nil, func(wl *wallet.Wallet) {
			if tk, e := cashu.DecodeToken(str); e == nil {
				if _, e := wl.Receive(tk, false); e == nil {
					ww.Tokens[len(ww.Tokens)-1].Claimed = true
				}
			}
		})
		ww.step++
		ww.mintInto(a, 21)
		ww.step++
		ww.mintInto(a, 7)
		checked = ww.CheckCounters(checked)
		ww.Settle()
		ww.restoreWallet(a, true, "live proofs behind more than 300 spent outputs")
		ww.step++
		ww.mintInto(ww.Wallets[0], 5)
		ww.CheckCounters(checked)
		rc.S.Probe("c19_live_behind_300_spent")
		rc.Nontrivial = true
		return
	case 8:
		// a token names the wallet's own mint by another spelling of its URL (trailing slash, upper-case
		// host): whatever the wallet makes of it, its counters for that mint's keysets stay where they are
		a, b := ww.Wallets[0], ww.Wallets[1]
		mint := mintNameOfURL(ww.node(a).Mint)
		ww.step = 0
		ww.mintInto(b, 21)
		var ps cashu.Proofs
		ww.op("w.send fees=false")
		ww.W.WalletOp(a, ww.name("send."+a), nil, func(wl *wallet.Wallet) { ps, _ = wl.Send(5, ww.mintURL(mint), false) })
		if len(ps) == 0 {
			return
		}
		url := []string{ww.mintURL(mint) + "/", strings.Replace(ww.mintURL(mint), "http://", "HTTP://", 1), ww.mintURL(mint) + "//"}[rc.P("k", 0)%3]
		str, _ := MakeToken(ps, url, false, false)
		ww.Tokens = append(ww.Tokens, &OutToken{Str: str, Proofs: ps, From: a, Mint: mint, Amount: ps.Amount(), Kind: "plain"})
		ww.op("w.receive plain respelled-url")
		ww.W.WalletOp(b, ww.name("recv."+b), nil, func(wl *wallet.Wallet) {
			if tk, e := cashu.DecodeToken(str); e == nil {
				if _, e := wl.Receive(tk, false); e == nil {
					ww.Tokens[len(ww.Tokens)-1].Claimed = true
				}
			}
		})
		checked = ww.CheckCounters(checked)
		ww.step++
		ww.mintInto(b, 13)
		checked = ww.CheckCounters(checked)
		ww.step++
		// the wallet program is started again: its counters now come from storage, where the keyset may
		// sit under both spellings of the mint's URL (C19_wE: only one of the two records was advanced)
		if nb := ww.node(b); nb != nil && nb.W != nil {
			ww.op("w.reload")
			rc.Quietly(func() {
				ww.W.StopWallet(b)
				if _, err := ww.W.StartWallet(b, mintNameOfURL(nb.Mint)); err != nil {
					ww.W.Book.Violate("W.reload_failed", "reload", "wallet does not load again after a clean shutdown: %v", err)
				}
			})
			rc.S.Probe("c19_reload_with_two_spellings")
		}
		ww.mintInto(b, 7)
		checked = ww.CheckCounters(checked)
		ww.Settle()
		ww.restoreWallet(b, false, "after a token with a respelled mint URL")
		rc.S.Probe("c19_respelled_mint_url")
		rc.Nontrivial = true
		return
	case 7:
		w := ww.Wallets[0]
		mint := mintNameOfURL(ww.node(w).Mint)
		ww.step = 0
		ww.mintInto(w, 100)
		for i := 0; i < 2; i++ {
			ww.step++
			ww.op("w.send fees=false")
			var ps cashu.Proofs
			var e error
			ww.W.WalletOp(w, ww.name("send."+w), nil, func(wl *wallet.Wallet) { ps, e = wl.Send(uint64(1+4*i), ww.mintURL(mint), false) })
			if e != nil {
				return
			}
			str, _ := MakeToken(ps, ww.mintURL(mint), false, false)
			ww.Tokens = append(ww.Tokens, &OutToken{Str: str, Proofs: ps, From: w, Mint: mint, Amount: ps.Amount(), Kind: "plain"})
			ww.StepOutsideRedeem(c19Witnesses[rc.P("wit", 0)])
			checked = ww.CheckCounters(checked)
		}
		ww.Settle()
		ww.restoreWallet(w, false, "after an outsider redeemed with a witness")
		rc.Nontrivial = true
		return
	case 3:
		// the 1 sat token cannot be moved across (fees), so the swap-to-trusted receive fails after
		// its unlocking swap; then the same token is received without swap-to-trusted
		c17SigAllCrossMint(ww, 1)
		checked = ww.CheckCounters(checked)
		if len(ww.Tokens) == 0 {
			return // the locked send did not come about: trivial run
		}
		t := ww.Tokens[len(ww.Tokens)-1]
		ww.op("w.receive p2pk sigall=true crossmint=false")
		ww.W.WalletOp(t.To, "recv2", nil, func(wl *wallet.Wallet) {
			tk, _ := cashu.DecodeToken(t.Str)
			wl.Receive(tk, false)
		})
		ww.CheckCounters(checked)
		rc.Nontrivial = true
		return
	}
	// random: histories with restores (some replacing the wallet), rotation, and sometimes a crash
	// weights:       mint send receive sendlocked melt resolvemelt reclaim mintswap rotate
	weights := []int{3, 5, 5, 1, 3, 2, 2, 0, 1, 1, 1, 2} // ... remelt clock reload
	if len(fees) == 2 {
		weights = []int{3, 5, 6, 3, 3, 2, 2, 1, 1, 1, 1, 2}
	}
	rc.StepLoop(3, 14, func(i int) {
		ww.step = i
		if T.Chance("c19.outside", 1, 8) && ww.StepOutsideRedeem(c19Witnesses[T.Choose("c19.outside.wit", len(c19Witnesses))]) {
			checked = ww.CheckCounters(checked)
			return
		}
		switch T.Pick("c19.kind", 8, 2, 1, 1) {
		case 0:
			ww.Step(T.Pick("step.kind", weights...))
		case 1:
			ww.StepRestore(false)
		case 2:
			ww.StepRestore(true)
		case 3:
			op := c19CrashOps[T.Choose("crash.op", len(c19CrashOps))]
			fk := []string{"crash", "crash", "resploss", "reqloss"}[T.Choose("crash.kind", 4)]
			k := 1 + T.Choose("crash.k", 24)
			if fk != "crash" {
				k = 1 + k%8
			}
			ww.faultOp(ww.pickWallet(), op, k, fk)
		}
		checked = ww.CheckCounters(checked)
	})
	ww.Settle()
	for _, w := range append([]string{}, ww.Wallets...) {
		ww.restoreWallet(w, false, "end of history")
	}
}

// crashOp runs one wallet operation with a crash of the wallet process at its k-th storage/HTTP seam,
// then reloads the wallet on the same directory.
func (ww *WW) crashOp(w, op string, k int) (fired bool) { return ww.faultOp(w, op, k, "crash") }

// faultOp runs one wallet operation with a fault: "crash" kills the wallet process at its k-th storage/HTTP seam
// (then reloads it); "resploss"/"reqloss" lose the response / request of its k-th HTTP request (the wallet sees a
// connection error; with a lost response the mint has executed the request).
func (ww *WW) faultOp(w, op string, k int, fkind string) (fired bool) {
	W := ww.W
	n := ww.node(w)
	if n.W == nil {
		return false
	}
	mint := mintNameOfURL(n.Mint)
	var plans []*FaultPlan
	if fkind == "crash" {
		plans = []*FaultPlan{{Node: w, Kind: "crash", Pos: k}}
	}
	ww.op(fmt.Sprintf("w.%s %s@%d", op, fkind, k))
	var tok *OutToken
	if op == "receive" {
		// something to receive: a token from another wallet
		ww.rc.Quietly(func() {})
		for _, t := range ww.Tokens {
			if !t.Claimed && t.Kind == "plain" && t.From != w {
				tok = t
			}
		}
		if tok == nil {
			var other string
			for _, x := range ww.Wallets {
				if x != w {
					other = x
				}
			}
			om := mintNameOfURL(ww.node(other).Mint)
			if ww.balanceAt(other, om) < 4 {
				return false
			}
			var ps cashu.Proofs
			var err error
			W.WalletOp(other, ww.name("mk."+other), nil, func(wl *wallet.Wallet) { ps, err = wl.Send(3, ww.mintURL(om), true) })
			if err != nil {
				return false
			}
			s, _ := MakeToken(ps, ww.mintURL(om), false, false)
			tok = &OutToken{Str: s, Proofs: ps, From: other, Mint: om, Amount: 3, Fees: true, Kind: "plain"}
			ww.Tokens = append(ww.Tokens, tok)
		}
	}
	inv := W.LN.NewExternalInvoice(5000)
	lossBefore := W.S.Stats["fault_net_resp_loss"] + W.S.Stats["fault_net_req_loss"]
	if fkind == "resploss" {
		W.Net.Faults[w] = &NetFault{RespLoss: true, Skip: k - 1}
	} else if fkind == "reqloss" {
		W.Net.Faults[w] = &NetFault{ReqLoss: true, Skip: k - 1}
	}
	meltQuoteID := ""
	crashed := W.WalletOp(w, ww.name("crash."+w), plans, func(wl *wallet.Wallet) {
		switch op {
		case "mint":
			q, e := wl.RequestMint(37, ww.mintURL(mint))
			if e != nil {
				return
			}
			if mq := W.Book.Mint(mint).MQ[q.Quote]; mq != nil {
				W.LN.PayExternal(mq.Hash)
			}
			wl.MintTokens(q.Quote)
		case "send":
			wl.Send(5, ww.mintURL(mint), true)
		case "receive":
			t, _ := cashu.DecodeToken(tok.Str)
			if _, err := wl.Receive(t, false); err == nil {
				tok.Claimed = true
			}
		case "melt":
			q, e := wl.RequestMeltQuote(inv.Bolt11, ww.mintURL(mint))
			if e != nil {
				return
			}
			meltQuoteID = q.Quote
			wl.Melt(q.Quote)
		}
	})
	delete(W.Net.Faults, w)
	if meltQuoteID != "" {
		ww.PendQ[w] = append(ww.PendQ[w], meltQuoteID) // known to later resolve / remelt steps
	}
	if fkind != "crash" {
		lost := W.S.Stats["fault_net_resp_loss"]+W.S.Stats["fault_net_req_loss"] > lossBefore
		if lost {
			// after a lost message the wallet is not in fault-free operation any more (counter clause)
			ww.Crashed[w] = true
			ww.rc.S.Probe("c19_wallet_" + fkind + "_" + op)
		}
		return lost
	}
	if crashed {
		ww.Crashed[w] = true
		ww.rc.S.Probe("c19_wallet_crashed_" + op)
		// the process is gone; reload on the same directory
		ww.rc.Quietly(func() {
			if _, err := W.StartWallet(w, mintNameOfURL(n.Mint)); err != nil {
				// not part of C19's statement (which is about restore): recorded as a note
				W.Book.Violate("W.reload_failed", op, "wallet does not load after a crash during %s: %v", op, err)
			}
		})
	}
	return crashed
}

func c19Crash(ww *WW, op string, k int) {
	w := ww.Wallets[0]
	ww.step = 0
	fkind := []string{"crash", "resploss", "reqloss"}[ww.rc.P("fkind", 0)]
	fired := ww.faultOp(w, op, k, fkind)
	ww.rc.Nontrivial = fired
	ww.Settle()
	// restore into an empty directory recovers every unspent deterministic proof
	ww.restoreWallet(w, false, fmt.Sprintf("crash during %s", op))
}

func c19RestoreContinue(ww *WW, rotate bool) {
	w := ww.Wallets[0]
	ww.step = 0
	checked := 0
	for round := 0; round < 3; round++ {
		// some activity
		ww.Wallets = []string{ww.Wallets[0], ww.Wallets[1]}
		for i := 0; i < 3; i++ {
			ww.step++
			ww.T = ww.rc.T
			ww.StepMint()
			ww.StepSend()
			ww.StepReceive()
		}
		if rotate && round == 1 {
			ww.StepRotate([]uint64{100})
			ww.StepMint()
		}
		checked = ww.CheckCounters(checked)
		// restore; the restored wallet continues
		w = ww.Wallets[0]
		ww.restoreWallet(w, true, fmt.Sprintf("round %d", round))
	}
	ww.Settle()
	ww.restoreWallet(ww.Wallets[0], false, "final")
}

// c19SpendAllRestore: the wallet spends everything it has (the last used batch of counters holds only
// spent proofs), is restored from the mnemonic, and the restored wallet continues: its stored
// counter must be past everything the mint signed, so the next operation reuses nothing.
func c19SpendAllRestore(ww *WW, viaMelt bool) {
	w, other := ww.Wallets[0], ww.Wallets[1]
	mint := mintNameOfURL(ww.node(w).Mint)
	ww.step = 0
	bal := ww.balanceAt(w, mint)
	if bal < 4 {
		return
	}
	if viaMelt {
		// melt as much as the fee reserve allows, then hand over the rest
		inv := ww.W.LN.NewExternalInvoice((bal - bal/8 - 2) * 1000)
		ww.op("w.melt(all)")
		ww.W.WalletOp(w, ww.name("meltall"), nil, func(wl *wallet.Wallet) {
			if q, e := wl.RequestMeltQuote(inv.Bolt11, ww.mintURL(mint)); e == nil {
				wl.Melt(q.Quote)
			}
		})
	}
	// send the whole remaining balance (no fees on this keyset: core scenario runs with fee 0)
	if rest := ww.balanceAt(w, mint); rest > 0 {
		var ps cashu.Proofs
		var err error
		ww.op("w.send fees=false")
		ww.W.WalletOp(w, ww.name("sendall"), nil, func(wl *wallet.Wallet) { ps, err = wl.Send(rest, ww.mintURL(mint), false) })
		if err == nil {
			s, _ := MakeToken(ps, ww.mintURL(mint), false, false)
			tok := &OutToken{Str: s, Proofs: ps, From: w, Mint: mint, Amount: rest, Kind: "plain", To: other}
			ww.Tokens = append(ww.Tokens, tok)
			ww.op("w.receive plain sigall=false crossmint=false")
			ww.W.WalletOp(other, ww.name("recvall"), nil, func(wl *wallet.Wallet) {
				t, _ := cashu.DecodeToken(s)
				if _, e := wl.Receive(t, false); e == nil {
					tok.Claimed = true
				}
			})
		}
	}
	if ww.balanceAt(w, mint) == 0 {
		ww.rc.S.Probe("c19_everything_spent_before_restore")
	}
	checked := ww.CheckCounters(0)
	ww.restoreWallet(w, true, "everything spent")
	rw := ww.Wallets[0]
	checked = ww.CheckCounters(checked)
	ww.op("w.mint(after restore)")
	ww.W.WalletOp(rw, ww.name("after"), nil, func(wl *wallet.Wallet) {
		q, e := wl.RequestMint(50, ww.mintURL(mint))
		if e != nil {
			return
		}
		if mq := ww.W.Book.Mint(mint).MQ[q.Quote]; mq != nil {
			ww.W.LN.PayExternal(mq.Hash)
		}
		wl.MintTokens(q.Quote)
	})
	ww.CheckCounters(checked)
	ww.restoreWallet(rw, false, "everything spent, second restore")
	ww.rc.Nontrivial = true
}

// c19ExactBatch: the seed has used exactly target outputs on its keyset (a multiple of the restore
// scan's batch size of 100) when it is restored; the restored wallet continues and is restored again.
func c19ExactBatch(ww *WW, target uint32) {
	w := ww.Wallets[0]
	mint := mintNameOfURL(ww.node(w).Mint)
	ww.step = 0
	ww.rc.S.MaxSteps += 60000
	counter := func() uint32 {
		if ks := ww.node(ww.Wallets[0]).Inner.GetKeyset(ww.W.ActiveKeyset(mint).ID); ks != nil {
			return ks.Counter
		}
		return 0
	}
	mintN := func(who string, amount uint64, label string) {
		ww.step++
		ww.op(label)
		ww.W.WalletOp(who, ww.name("eb"), nil, func(wl *wallet.Wallet) {
			q, e := wl.RequestMint(amount, ww.mintURL(mint))
			if e != nil {
				return
			}
			if mq := ww.W.Book.Mint(mint).MQ[q.Quote]; mq != nil {
				ww.W.LN.PayExternal(mq.Hash)
			}
			wl.MintTokens(q.Quote)
		})
	}
	for guard := 0; counter() < target && guard < 80; guard++ {
		rem := target - counter()
		if rem > 6 {
			rem = 6
		}
		mintN(w, uint64(1)<<rem-1, "w.mint(exact)") // an amount with rem one-bits: rem outputs
	}
	if counter() != target {
		return // some operation did not come about: trivial run
	}
	ww.rc.S.Probe("c19_exact_batch_boundary")
	checked := ww.CheckCounters(0)
	ww.restoreWallet(w, true, "used outputs = a multiple of the scan batch")
	mintN(ww.Wallets[0], 5, "w.mint(after restore)")
	checked = ww.CheckCounters(checked)
	mintN(ww.Wallets[0], 9, "w.mint(after restore)")
	ww.CheckCounters(checked)
	ww.Settle()
	ww.restoreWallet(ww.Wallets[0], false, "second restore after a batch boundary")
	ww.rc.Nontrivial = true
}

func c19ManyOutputs(ww *WW, rotateAfter bool) {
	// more than 300 outputs on one keyset: many small sends (each swap creates several outputs)
	w := ww.Wallets[0]
	mint := mintNameOfURL(ww.node(w).Mint)
	ww.step = 0
	ww.rc.S.MaxSteps += 60000
	for i := 0; i < 60; i++ {
		ww.step++
		var err error
		ww.op("w.mint(many)")
		ww.W.WalletOp(w, ww.name("many"), nil, func(wl *wallet.Wallet) {
			q, e := wl.RequestMint(63, ww.mintURL(mint))
			if e != nil {
				err = e
				return
			}
			if mq := ww.W.Book.Mint(mint).MQ[q.Quote]; mq != nil {
				ww.W.LN.PayExternal(mq.Hash)
			}
			_, err = wl.MintTokens(q.Quote)
		})
		if err != nil {
			break
		}
	}
	ww.CheckCounters(0)
	ctr := uint32(0)
	if ks := ww.node(w).Inner.GetKeyset(ww.W.ActiveKeyset(mint).ID); ks != nil {
		ctr = ks.Counter
	}
	if ctr > 300 {
		ww.rc.S.Probe("c19_more_than_300_outputs")
	}
	if rotateAfter {
		// the mint rotates after the long history; the same wallet goes on using the new keyset
		ww.StepRotate([]uint64{0, 100})
		ww.op("w.mint(after rotation)")
		ww.W.WalletOp(w, ww.name("afterrot"), nil, func(wl *wallet.Wallet) {
			q, e := wl.RequestMint(700, ww.mintURL(mint))
			if e != nil {
				return
			}
			if mq := ww.W.Book.Mint(mint).MQ[q.Quote]; mq != nil {
				ww.W.LN.PayExternal(mq.Hash)
			}
			wl.MintTokens(q.Quote)
		})
		ww.CheckCounters(0)
		ww.rc.S.Probe("c19_rotation_after_300_outputs")
	}
	ww.restoreWallet(w, true, "many outputs")
	// the restored wallet continues: it mints more, then the same mnemonic is restored again
	rw := ww.Wallets[0]
	ww.op("w.mint(after restore)")
	ww.W.WalletOp(rw, ww.name("after"), nil, func(wl *wallet.Wallet) {
		q, e := wl.RequestMint(500, ww.mintURL(mint))
		if e != nil {
			return
		}
		if mq := ww.W.Book.Mint(mint).MQ[q.Quote]; mq != nil {
			ww.W.LN.PayExternal(mq.Hash)
		}
		wl.MintTokens(q.Quote)
	})
	ww.CheckCounters(0)
	ww.restoreWallet(rw, false, "many outputs, second restore")
}
