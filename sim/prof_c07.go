package sim

import (
	"fmt"
	"sort"
	"strings"
	"time"

	gmint "github.com/elnosh/gonuts/mint"
)

// C07 — mint crash consistency. Enumerates (operation) x (position k between
// consecutive storage/Lightning calls) x {crash before call k, storage error at call k},
// restarts the mint on the same directory and runs an adversarial follow-up.
// Clauses: S safety, D durability, A atomicity (DESIGN.md §9 C07).

func init() {
	Register(&Profile{Prop: "C07", Fatal: []string{"C07.", "C01.", "C02.", "C03.", "C15.restore"}, Run: runC07, Core: coreC07})
}

var c07Ops = []string{"mintquote", "mint", "swap", "melt_succ", "melt_pend", "melt_failfail", "melt_failnf", "melt_err",
	"internal", "resolve_poll", "resolve_cs", "rotate", "mint_locked"}

func c07OpIdx(n string) int {
	for i, x := range c07Ops {
		if x == n {
			return i
		}
	}
	return 0
}

func coreC07(tier string) []RunSpec {
	var out []RunSpec
	for oi, op := range c07Ops {
		for fault := 0; fault < 2; fault++ {
			maxK := 12
			for k := 1; k <= maxK; k++ {
				finals := []int{1}
				if op == "melt_pend" || op == "melt_err" || strings.HasPrefix(op, "resolve") {
					finals = []int{0, 1}
				}
				for _, f := range finals {
					out = append(out, RunSpec{Profile: "core:" + op, Params: map[string]int{"op": oi, "fault": fault, "k": k, "final": f}})
				}
			}
		}
	}
	// the invoice of a mint quote is paid while the mint cannot notice (down, or its invoice
	// subscription lost with a crash); the mint comes back - at once or long after the quote's
	// expiry - and the client who paid in time asks for its tokens
	for d := 0; d < 4; d++ {
		for when := 0; when < 2; when++ {
			out = append(out, RunSpec{Profile: "core:paid-while-down", Params: map[string]int{"pwd": 1, "d": d, "when": when}})
		}
	}
	return out
}

type keysetSnap map[string]string // id -> active|keyhash

func snapKeysets(W *World, mint string) keysetSnap {
	// through the public API, fresh (not the Book's cache)
	a := NewActor(W, "snap")
	r := a.Get(mint, "/v1/keysets")
	out := keysetSnap{}
	if !r.OK() {
		return out
	}
	list, _ := r.Body["keysets"].([]any)
	for _, it := range list {
		km, _ := it.(map[string]any)
		id, _ := km["id"].(string)
		active, _ := km["active"].(bool)
		kr := a.Get(mint, "/v1/keys/"+id)
		out[id] = fmt.Sprintf("%v|%x", active, sha(kr.Raw))
	}
	return out
}

func sha(b []byte) []byte {
	h := hashBytes(b)
	return h[:6]
}

func (k keysetSnap) String() string {
	ids := make([]string, 0, len(k))
	for id := range k {
		ids = append(ids, id+"="+k[id])
	}
	sort.Strings(ids)
	return strings.Join(ids, " ")
}

func (k keysetSnap) activeCount() int {
	n := 0
	for _, v := range k {
		if strings.HasPrefix(v, "true|") {
			n++
		}
	}
	return n
}

func runC07(rc *RunCtx) {
	T := rc.T
	random := rc.Spec.Profile == "random"
	oi := rc.P("op", 0)
	faultKind := rc.P("fault", 0)
	k := rc.P("k", 1)
	final := rc.P("final", 1)
	if random {
		oi = T.Choose("op", len(c07Ops))
		faultKind = T.Choose("fault", 2)
		k = 1 + T.Choose("k", 12)
		final = T.Choose("final", 2)
	}
	ln := LNConfig{FeePolicy: 1}
	fee := uint(0)
	if random {
		fee = []uint{0, 100}[T.Choose("fee", 2)]
	}
	rc.NewMintWorld(ln, MintOpts{Fee: fee})
	W := rc.W
	m := NewMW(rc, "A")
	m.Fees = map[string][]uint64{"A": {uint64(fee), 100}}
	rc.Quietly(func() { m.User.Fund("A", 255) })
	if random {
		// prior history
		rc.S.Policy = 1 + T.Choose("cfg.policy", 2)
		n := T.Choose("prior.n", 5)
		for i := 0; i < n; i++ {
			m.step = i
			m.Step(T.Pick("prior.kind", 2, 3, 2, 1, 1, 0, 1, 1, 1, 1), false)
		}
		m.step = 100
	}
	if rc.P("pwd", 0) == 1 || (random && T.Chance("pwd", 1, 10)) {
		c07PaidWhileDown(rc, m, rc.P("d", T.Choose("pwd.d", 4)), rc.P("when", T.Choose("pwd.when", 2)))
		if !random {
			m.Finale()
			return
		}
	}
	round := 0
	faulted := func(oi, faultKind, k, final int) {
		round++
		opName := fmt.Sprintf("op%d", round)
		op := c07Ops[oi]
		fk := "crash"
		if faultKind == 1 {
			fk = "db_error"
		}
		rc.S.Quiet = false
		rc.Op(fmt.Sprintf("%s %s@%d final=%d", op, fk, k, final))
		family := op
		switch {
		case strings.HasPrefix(op, "melt_"):
			family = "melt"
		case strings.HasPrefix(op, "resolve_"):
			family = "resolve"
		case op == "mint_locked":
			family = "mint"
		}
		opFault := "none"
		vio := func(clause, what, format string, a ...any) {
			fp := family + "|" + opFault + "|" + what
			W.Book.Violate("C07."+clause+"."+what, fp, "%s with %s: %s", op, rc.S.LastFault, fmt.Sprintf(format, a...))
		}

		ks := W.ActiveKeyset("A")
		plan := &FaultPlan{Node: "A", Kind: fk, Pos: k}
		if fk == "db_error" {
			plan.SeamKind = "db"
		}

		// ---- op-specific preparation (quiet) ----
		var mq *MintQuote
		var lq *MeltQuote
		var ins []*HProof
		var outs []*HOutput
		var inv *LNInvoice
		var resp *Resp
		var before keysetSnap
		rc.Quietly(func() {
			before = snapKeysets(W, "A")
			switch op {
			case "mint", "mint_locked":
				mq, _ = m.User.ReqMintQuote("A", 64, op == "mint_locked")
				W.LN.PayExternal(mq.Hash)
				outs = W.NewOutputs(Split(64), ks.ID)
			case "swap":
				ins = m.pickProofs("A", 2)
				f := m.feeFor("A", ins)
				if ins == nil || SumH(ins) <= f {
					ins = nil
					return
				}
				outs = W.NewOutputs(Split(SumH(ins)-f), ks.ID)
				m.User.remove("A", ins) // not available to concurrent background requests
			case "melt_succ", "melt_pend", "melt_failfail", "melt_failnf", "melt_err", "resolve_poll", "resolve_cs":
				inv = W.LN.NewExternalInvoice(40 * 1000)
				sc := &LNScript{}
				switch op {
				case "melt_succ":
					sc.Pay = "succeeded"
				case "melt_pend", "resolve_poll", "resolve_cs":
					sc.Pay = "pending"
				case "melt_failfail":
					sc.Pay, sc.Status = "failed", []string{"failed"}
				case "melt_failnf":
					sc.Pay, sc.Status = "failed", []string{"notfound"}
				case "melt_err":
					sc.Pay = "error"
				}
				W.LN.Scripts[inv.Hash] = sc
				lq, _ = m.User.ReqMeltQuote("A", inv.Bolt11, 0)
				if lq == nil {
					return
				}
				ins = m.TakeFor("A", lq.Amount+lq.Reserve)
				if ins == nil {
					return
				}
				m.User.remove("A", ins)
				if strings.HasPrefix(op, "resolve") {
					r := m.User.Melt("A", lq.ID, ins)
					if RespState(r) != "PENDING" {
						harnessf("resolve setup: melt did not stay pending: %v", r)
					}
					W.LN.ResolveInflight("A|"+inv.Hash, final == 1)
				}
			case "internal":
				mq, _ = m.User.ReqMintQuote("A", 32, false)
				lq, _ = m.User.ReqMeltQuote("A", mq.Request, 0)
				if lq == nil {
					return
				}
				ins = m.TakeFor("A", lq.Amount+lq.Reserve)
				if ins == nil {
					return
				}
				m.User.remove("A", ins)
				outs = W.NewOutputs(Split(32), ks.ID)
			}
		})

		switch op {
		case "swap":
			if ins == nil || len(outs) == 0 {
				return
			}
		case "mint", "mint_locked":
			if mq == nil {
				return
			}
		case "melt_succ", "melt_pend", "melt_failfail", "melt_failnf", "melt_err", "resolve_poll", "resolve_cs", "internal":
			if lq == nil || ins == nil {
				return // not enough funds left after the prior history: trivial run
			}
		}

		// ---- the faulted operation ----
		rc.S.BeginEpisode(plan)
		node := W.Mints["A"]
		bgOn := random && T.Chance("bg", 1, 2)
		if bgOn {
			// a concurrent unrelated request
			bins := m.pickProofs("A", 1)
			if bins != nil {
				bf := m.feeFor("A", bins)
				if SumH(bins) > bf {
					bouts := W.NewOutputs(Split(SumH(bins)-bf), ks.ID)
					rc.S.Go(opName+".bgswap", W.Ext, true, func() {
						a := NewActor(W, "bgswap")
						ps, r := a.Swap("A", bins, bouts)
						if r.OK() {
							m.User.remove("A", bins)
							m.Spent["A"] = append(m.Spent["A"], bins...)
							m.User.Purse["A"] = append(m.User.Purse["A"], ps...)
						} else {
							m.User.remove("A", bins) // unknown outcome: audit decides
						}
					})
				}
			}
		}
		owner := W.Ext
		if op == "rotate" {
			owner = node.Inc
		}
		rc.S.Go(opName, owner, true, func() {
			switch op {
			case "mintquote":
				mq, resp = m.User.ReqMintQuote("A", 16, false)
			case "mint", "mint_locked":
				_, resp = m.User.Mint("A", mq, outs, "")
			case "swap":
				_, resp = m.User.Swap("A", ins, outs)
			case "melt_succ", "melt_pend", "melt_failfail", "melt_failnf", "melt_err", "internal":
				resp = m.User.Melt("A", lq.ID, ins)
			case "resolve_poll":
				resp = m.User.PollMeltQuote("A", lq.ID)
			case "resolve_cs":
				resp = m.User.CheckState("A", []string{ins[0].Y()})
			case "rotate":
				_, err := node.M.RotateKeyset(100)
				resp = &Resp{Status: 200}
				if err != nil {
					resp = &Resp{Status: 500, Detail: err.Error()}
				}
			}
		})
		rc.S.Drive(false)
		fired := plan.fired
		if !fired {
			rc.S.LastFault = "none"
		} else {
			// the fault as the operation under test met it: where its own task stood when the
			// node died, or the call of its own that failed
			opTask := opName + "/h1"
			if op == "rotate" {
				opTask = opName
			}
			if fk == "crash" {
				if l, ok := rc.S.CrashedAt[opTask]; ok {
					opFault = "crash@" + NormLabel(l)
				} else {
					opFault = "crash@elsewhere"
				}
			} else if rc.S.FaultTask == opTask {
				opFault = rc.S.LastFault
			} else {
				opFault = "db_error@elsewhere"
			}
		}
		rc.Nontrivial = fired
		acked := resp != nil && resp.OK()

		// ---- restart ----
		rc.S.Quiet = true
		crashed := !node.Inc.Alive
		if crashed {
			_, err := W.StartMint("A", gmint.Config{InputFeePpk: fee})
			if err != nil {
				vio("S", "load_fails", "LoadMint on the same directory fails after the crash: %v", err)
				return
			}
			rc.S.Stats["restart_after_crash"]++
		}
		if op == "rotate" && !crashed && fired {
			// a storage error inside the rotation: the operator restarts the mint afterwards; the keysets must
			// then be exactly the old or exactly the new set as well
			mid := snapKeysets(W, "A")
			if mid.activeCount() != 1 {
				vio("S", "active_count", "%d active keysets right after a failed rotation", mid.activeCount())
			}
			if err := W.RestartMint("A", nil); err != nil {
				vio("S", "load_fails", "LoadMint fails after a rotation that met a storage error: %v", err)
				return
			}
			rc.S.Stats["restart_after_db_error"]++
		}
		after := snapKeysets(W, "A")
		if op == "rotate" {
			// exactly the old set or exactly the new set (old + one new active keyset)
			switch {
			case after.String() == before.String():
			case len(after) == len(before)+1 && after.activeCount() == 1:
				for id, v := range before {
					if !strings.HasSuffix(after[id], v[strings.Index(v, "|"):]) {
						vio("S", "keys_changed", "keyset %s has different keys after interrupted rotation", id)
					}
				}
			default:
				vio("S", "keysets_torn", "keysets after interrupted rotation are neither the old nor the new set: before [%s] after [%s]", before, after)
			}
			if after.activeCount() != 1 {
				vio("S", "active_count", "%d active keysets after interrupted rotation", after.activeCount())
			}
			W.RefreshKeysets("A", 100)
		} else if after.String() != before.String() {
			vio("S", "keysets_changed", "keysets changed across crash: before [%s] after [%s]", before, after)
		}
		ks = W.ActiveKeyset("A")
		if ks == nil {
			vio("S", "no_active_keyset", "no active keyset after restart")
			return
		}

		// Lightning now truthful; in-flight payments reach their final outcome
		if inv != nil {
			if sc := W.LN.Scripts[inv.Hash]; sc != nil {
				sc.pos = len(sc.Status)
			}
			W.LN.ResolveInflight("A|"+inv.Hash, final == 1)
		}

		// ---- D: durability of everything acknowledged before the fault ----
		var known []*HOutput
		mb := W.Book.Mint("A")
		for _, b := range W.OutOrder {
			if o := W.Outputs[b]; o != nil && mb.Sigs[b] != nil {
				known = append(known, o)
			}
		}
		if len(known) > 0 {
			m.User.Restore("A", known) // Book: C15.restore_missing / restore_mismatch
		}
		var spentYs []string
		for _, p := range m.Spent["A"] {
			spentYs = append(spentYs, p.Y())
		}
		if len(spentYs) > 0 {
			m.User.CheckState("A", spentYs) // Book: C01.spent_not_reported
		}

		// ---- A: atomicity of the interrupted operation ----
		restorable := func(os []*HOutput) int {
			r := m.User.Restore("A", os)
			if !r.OK() {
				return 0
			}
			sg, _ := r.Body["signatures"].([]any)
			return len(sg)
		}
		switch op {
		case "mintquote":
			if acked {
				if r := m.User.PollMintQuote("A", mq.ID); !r.OK() {
					vio("D", "quote_lost", "acknowledged mint quote unknown after restart: %v", r)
				}
			}
		case "mint", "mint_locked":
			if !acked {
				fresh := W.NewOutputs(Split(64), ks.ID)
				_, r := m.User.Mint("A", mq, fresh, "")
				if !r.OK() {
					// same outputs again?
					_, r2 := m.User.Mint("A", mq, outs, "")
					if !r2.OK() {
						n := restorable(outs)
						if n != len(outs) {
							st := RespState(m.User.PollMintQuote("A", mq.ID))
							vio("A", "mint_stranded", "invoice paid, mint retry rejected (%v), only %d of %d outputs restorable, quote state %s", r, n, len(outs), st)
						} else {
							rc.S.Probe("c07_mint_recovered_by_restore")
						}
					}
				} else {
					rc.S.Probe("c07_mint_retry_ok")
				}
			}
		case "swap":
			if !acked {
				f := m.feeFor("A", ins)
				_, r := m.User.Swap("A", ins, W.NewOutputs(Split(SumH(ins)-f), ks.ID))
				if !r.OK() {
					n := restorable(outs)
					if n != len(outs) {
						vio("A", "swap_stranded", "inputs no longer spendable (%v) and only %d of %d outputs restorable", r, n, len(outs))
					} else {
						rc.S.Probe("c07_swap_recovered_by_restore")
					}
				} else {
					rc.S.Probe("c07_swap_retry_ok")
					m.Spent["A"] = append(m.Spent["A"], ins...)
				}
			}
		case "melt_succ", "melt_pend", "melt_failfail", "melt_failnf", "melt_err", "resolve_poll", "resolve_cs", "internal":
			hash := ""
			if inv != nil {
				hash = inv.Hash
			} else {
				hash = mq.Hash
			}
			st := ""
			for i := 0; i < 3; i++ {
				st = RespState(m.User.PollMeltQuote("A", lq.ID))
				if st != "PENDING" {
					break
				}
			}
			pay := W.LN.Payments["A|"+hash]
			paid := pay != nil && pay.Truth == ptSucceeded
			csr := m.User.CheckState("A", []string{ins[0].Y()})
			pst := ""
			if csr.OK() {
				if arr, _ := csr.Body["states"].([]any); len(arr) > 0 {
					pst, _ = arr[0].(map[string]any)["state"].(string)
				}
			}
			if op == "internal" {
				// no Lightning: either settled (quote PAID, inputs SPENT, mint quote mintable) or inputs spendable again
				if st == "PAID" {
					if pst != "SPENT" && pst != "PENDING" {
						// (PENDING forever is tolerated here: the inputs are unusable, the client has its value)
						vio("S", "internal_paid_inputs", "internal settlement reports PAID but inputs are %s", pst)
					}
					_, r := m.User.Mint("A", mq, outs, "")
					if !r.OK() {
						vio("A", "internal_mint_stranded", "melt settled internally (PAID) but the mint quote cannot be minted: %v", r)
					}
				} else {
					f := m.feeFor("A", ins)
					_, r := m.User.Swap("A", ins, W.NewOutputs(Split(SumH(ins)-f), ks.ID))
					if !r.OK() {
						// retry the melt itself
						r2 := m.User.Melt("A", lq.ID, ins)
						if !(r2.OK() && RespState(r2) == "PAID") {
							vio("A", "internal_locked", "internal settlement interrupted: quote %s, inputs %s, neither spendable (%v) nor meltable (%v)", st, pst, r, r2)
						}
					} else {
						m.Spent["A"] = append(m.Spent["A"], ins...)
					}
					// the payee tries to mint whatever happened: the Book decides whether a settlement that
					// kept its inputs covers it (C03.*), the audit whether value appeared (C02.*)
					m.User.Mint("A", mq, outs, "")
					rc.S.Probe("c07_internal_payee_mints_after_interruption")
				}
				break
			}
			if paid {
				if st != "PAID" || pst != "SPENT" {
					vio("A", "paid_not_settled", "Lightning payment succeeded but after polling the quote is %s and the inputs are %s", st, pst)
				} else {
					rc.S.Probe("c07_melt_settled")
				}
			} else {
				// no payment was made (or it failed): the inputs must become spendable again
				f := m.feeFor("A", ins)
				_, r := m.User.Swap("A", ins, W.NewOutputs(Split(SumH(ins)-f), ks.ID))
				if !r.OK() {
					truth := "none"
					if pay != nil {
						truth = pay.Truth.String()
					}
					vio("A", "melt_locked_no_payment", "no payment made (backend truth: %s) but inputs are %s, quote %s, follow-up swap rejected: %v", truth, pst, st, r)
				} else {
					rc.S.Probe("c07_melt_inputs_released")
					m.Spent["A"] = append(m.Spent["A"], ins...)
				}
			}
		case "rotate":
			// traffic on old and new keysets still works
			old := m.pickProofs("A", 1)
			if old != nil {
				f := m.feeFor("A", old)
				if SumH(old) > f {
					_, r := m.User.Swap("A", old, W.NewOutputs(Split(SumH(old)-f), ks.ID))
					if !r.OK() {
						vio("S", "old_proofs_rejected", "proof of the pre-rotation keyset rejected after interrupted rotation: %v", r)
					}
				}
			}
		}

	} // end of faulted()

	faulted(oi, faultKind, k, final)
	if random && T.Chance("second", 1, 3) {
		// a second faulted operation on whatever state the first one left behind (double fault)
		if node := W.Mints["A"]; node.Inc != nil && node.Inc.Alive && W.ActiveKeyset("A") != nil {
			rc.S.Stats["c07_double_fault"]++
			faulted(T.Choose("op2", len(c07Ops)), T.Choose("fault2", 2), 1+T.Choose("k2", 12), T.Choose("final2", 2))
		}
	}

	// ---- S: safety: book invariants + drain audit ----
	rc.S.Quiet = true
	if node := W.Mints["A"]; node.Inc == nil || !node.Inc.Alive {
		return
	}
	W.Book.FinalizeMelts()
	m.Audit("A")
}

// c07PaidWhileDown: see coreC07. when 0: paid before the crash (the notification never reached the
// mint), when 1: paid after the restart (LoadMint does not re-subscribe). d: how long after the
// payment the client comes back.
func c07PaidWhileDown(rc *RunCtx, m *MW, d, when int) {
	W := rc.W
	wait := []time.Duration{0, 20 * time.Minute, 2 * time.Hour, 26 * time.Hour}[d%4]
	rc.Op(fmt.Sprintf("paid-while-down when=%d wait=%s", when, wait))
	var q *MintQuote
	rc.Quietly(func() { q, _ = m.User.ReqMintQuote("A", 64, false) })
	if q == nil {
		return
	}
	if when == 0 {
		W.LN.PayExternal(q.Hash) // settled on Lightning, notification not delivered
	}
	crashed := false
	rc.Quietly(func() {
		if err := W.RestartMint("A", nil); err != nil {
			W.Book.Violate("C07.S.load_fails", "paid-while-down", "mint does not load: %v", err)
			crashed = true
		}
	})
	if crashed {
		return
	}
	if when == 1 {
		W.LN.PayExternal(q.Hash)
	}
	if wait > 0 {
		rc.S.Sleep(wait)
	}
	ks := W.ActiveKeyset("A")
	var state string
	var mr *Resp
	rc.S.BeginEpisode()
	rc.S.Run1("pwd.claim", W.Ext, func() {
		state = RespState(m.User.PollMintQuote("A", q.ID))
		_, mr = m.User.Mint("A", q, W.NewOutputs(Split(64), ks.ID), "")
	})
	rc.S.Probe("c07_paid_while_down")
	rc.Nontrivial = true
	if mr == nil || !mr.OK() {
		fp := fmt.Sprintf("paid-while-down|when=%d|late=%v|mint_stranded", when, wait > 15*time.Minute)
		W.Book.Violate("C07.A.mint_stranded", fp, "invoice of quote %s was paid in time (%s) but %s later the quote is %s and the mint request is answered %v: paid, nothing recoverable", short(q.ID), []string{"before the mint went down", "after the restart"}[when%2], wait, state, mr)
	}
}
