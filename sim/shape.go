package sim

import (
	"bytes"
	"encoding/hex"
	"encoding/json"
	"fmt"
	"strconv"
	"strings"
)

// NUT response shapes, restated in the harness (C20). Every response that crosses the
// transport is checked when World.ShapeCheck is on.

func isHex(s string, n int) bool {
	if n > 0 && len(s) != n {
		return false
	}
	_, err := hex.DecodeString(s)
	return err == nil && len(s) > 0
}

func isPointHex(s string) bool {
	if !isHex(s, 66) || s != strings.ToLower(s) {
		return false
	}
	_, err := parsePoint(s)
	return err == nil
}

type shapeErr struct{ msgs []string }

func (e *shapeErr) add(format string, a ...any) { e.msgs = append(e.msgs, fmt.Sprintf(format, a...)) }

func wantStr(e *shapeErr, m map[string]any, k string) string {
	v, ok := m[k].(string)
	if !ok {
		e.add("field %q is %T, want string", k, m[k])
	}
	return v
}

func wantNum(e *shapeErr, m map[string]any, k string) float64 {
	v, ok := m[k].(float64)
	if !ok {
		e.add("field %q is %T, want number", k, m[k])
	}
	if v < 0 || v != float64(uint64(v)) {
		e.add("field %q = %v is not a non-negative integer", k, v)
	}
	return v
}

func wantEnum(e *shapeErr, m map[string]any, k string, vals ...string) string {
	s, ok := m[k].(string)
	if !ok {
		e.add("field %q is %T (%v), want one of the strings %v", k, m[k], m[k], vals)
		return ""
	}
	for _, v := range vals {
		if s == v {
			return s
		}
	}
	e.add("field %q = %q not in %v", k, s, vals)
	return s
}

func checkSigsShape(e *shapeErr, v any, field string) {
	arr, ok := v.([]any)
	if !ok {
		e.add("%s is %T, want array", field, v)
		return
	}
	for i, it := range arr {
		m, ok := it.(map[string]any)
		if !ok {
			e.add("%s[%d] not an object", field, i)
			continue
		}
		wantNum(e, m, "amount")
		if id := wantStr(e, m, "id"); !isHex(id, 16) {
			e.add("%s[%d].id %q is not a 16-hex keyset id", field, i, id)
		}
		if c := wantStr(e, m, "C_"); !isPointHex(c) {
			e.add("%s[%d].C_ is not a compressed point in lower-case hex", field, i)
		}
		if d, ok := m["dleq"].(map[string]any); ok {
			if !isHex(wantStr(e, d, "e"), 64) || !isHex(wantStr(e, d, "s"), 64) {
				e.add("%s[%d].dleq e/s not 32-byte hex", field, i)
			}
			if _, has := d["r"]; has {
				e.add("%s[%d].dleq carries r", field, i)
			}
		} else {
			e.add("%s[%d] has no dleq object", field, i)
		}
	}
}

// keysSorted: the "keys" object must list amounts in ascending numeric order in the raw bytes.
func keysSorted(raw []byte) (bool, int) {
	dec := json.NewDecoder(bytes.NewReader(raw))
	depth := 0
	inKeys := false
	keysDepth := 0
	var last uint64
	first := true
	n := 0
	expectKey := false
	var stack []bool // true = object
	for {
		tok, err := dec.Token()
		if err != nil {
			break
		}
		switch t := tok.(type) {
		case json.Delim:
			switch t {
			case '{':
				stack = append(stack, true)
				depth++
				expectKey = true
			case '[':
				stack = append(stack, false)
				depth++
			case '}', ']':
				if inKeys && depth == keysDepth {
					inKeys = false
				}
				stack = stack[:len(stack)-1]
				depth--
				expectKey = len(stack) > 0 && stack[len(stack)-1]
			}
		case string:
			if len(stack) > 0 && stack[len(stack)-1] && expectKey {
				// object key
				if inKeys && depth == keysDepth {
					v, err := strconv.ParseUint(t, 10, 64)
					if err != nil {
						return false, n
					}
					if !first && v <= last {
						return false, n
					}
					first = false
					last = v
					n++
				} else if t == "keys" {
					// the next '{' opens the key map
					inKeys = true
					keysDepth = depth + 1
					first = true
				}
				expectKey = false
			} else {
				expectKey = len(stack) > 0 && stack[len(stack)-1]
			}
		default:
			expectKey = len(stack) > 0 && stack[len(stack)-1]
		}
	}
	return true, n
}

var mintQuoteStates = []string{"UNPAID", "PAID", "PENDING", "ISSUED"}
var meltQuoteStates = []string{"UNPAID", "PENDING", "PAID"}
var proofStates = []string{"UNSPENT", "PENDING", "SPENT"}

// CheckShape validates one exchange. It returns problems (empty = fine).
func CheckShape(o *HTTPObs) []string {
	e := &shapeErr{}
	if o.Status == 0 {
		return nil
	}
	p := o.Path
	if i := strings.IndexByte(p, '?'); i >= 0 {
		p = p[:i]
	}
	if o.Status == 405 || o.Status == 404 {
		return nil // router-level answers (wrong method / unknown path)
	}
	if o.Status != 200 && o.Status != 400 {
		e.add("status %d, want 200 or 400", o.Status)
		return e.msgs
	}
	var body any
	if err := json.Unmarshal(o.Resp, &body); err != nil {
		e.add("body is not JSON: %v", err)
		return e.msgs
	}
	m, ok := body.(map[string]any)
	if !ok {
		e.add("body is %T, want object", body)
		return e.msgs
	}
	if o.Status == 400 {
		if _, ok := m["detail"].(string); !ok {
			e.add("error body without string detail: %s", cut(string(o.Resp), 120))
		}
		c, ok := m["code"].(float64)
		if !ok || c != float64(int(c)) {
			e.add("error body without integer code: %s", cut(string(o.Resp), 120))
		} else if c < 10000 {
			e.add("error code %v is not a NUT error code (internal code leaked)", c)
		}
		if len(m) != 2 {
			e.add("error body has %d fields, want {detail, code}", len(m))
		}
		return e.msgs
	}
	switch {
	case p == "/v1/keys" || strings.HasPrefix(p, "/v1/keys/"):
		arr, _ := m["keysets"].([]any)
		if len(arr) == 0 {
			e.add("no keysets array")
		}
		for _, it := range arr {
			km, _ := it.(map[string]any)
			if km == nil {
				e.add("keyset entry not an object")
				continue
			}
			if id := wantStr(e, km, "id"); !isHex(id, 16) {
				e.add("keyset id %q", id)
			}
			wantEnum(e, km, "unit", "sat")
			keys, _ := km["keys"].(map[string]any)
			if len(keys) == 0 {
				e.add("keys map empty")
			}
			for a, v := range keys {
				if _, err := strconv.ParseUint(a, 10, 64); err != nil {
					e.add("key amount %q not an integer string", a)
				}
				if s, _ := v.(string); !isPointHex(s) {
					e.add("key for %s is not a compressed point in hex", a)
				}
			}
		}
		if ok, _ := keysSorted(o.Resp); !ok {
			e.add("keys map is not sorted by amount")
		}
	case p == "/v1/keysets":
		arr, ok := m["keysets"].([]any)
		if !ok {
			e.add("no keysets array")
		}
		for _, it := range arr {
			km, _ := it.(map[string]any)
			if km == nil {
				continue
			}
			wantStr(e, km, "id")
			wantEnum(e, km, "unit", "sat")
			if _, ok := km["active"].(bool); !ok {
				e.add("active is %T", km["active"])
			}
			wantNum(e, km, "input_fee_ppk")
		}
	case p == "/v1/mint/quote/bolt11" || strings.HasPrefix(p, "/v1/mint/quote/bolt11/"):
		wantStr(e, m, "quote")
		if r := wantStr(e, m, "request"); !strings.HasPrefix(r, "ln") {
			e.add("request is not a bolt11 string")
		}
		wantEnum(e, m, "state", mintQuoteStates...)
		wantNum(e, m, "expiry")
		if v, has := m["pubkey"]; has {
			if s, _ := v.(string); !isPointHex(s) {
				e.add("pubkey not a point")
			}
		}
	case p == "/v1/mint/bolt11" || p == "/v1/swap":
		checkSigsShape(e, m["signatures"], "signatures")
	case p == "/v1/melt/quote/bolt11" || strings.HasPrefix(p, "/v1/melt/quote/bolt11/") || p == "/v1/melt/bolt11":
		wantStr(e, m, "quote")
		wantNum(e, m, "amount")
		wantNum(e, m, "fee_reserve")
		st := wantEnum(e, m, "state", meltQuoteStates...)
		wantNum(e, m, "expiry")
		if st == "PAID" {
			if pre, _ := m["payment_preimage"].(string); pre == "" {
				e.add("PAID without payment_preimage")
			}
		}
	case p == "/v1/checkstate":
		arr, ok := m["states"].([]any)
		if !ok {
			e.add("no states array")
		}
		for _, it := range arr {
			sm, _ := it.(map[string]any)
			if sm == nil {
				e.add("state entry not an object")
				continue
			}
			wantStr(e, sm, "Y")
			wantEnum(e, sm, "state", proofStates...)
			if w, has := sm["witness"]; has {
				if _, ok := w.(string); !ok {
					e.add("witness is %T", w)
				}
			}
		}
	case p == "/v1/restore":
		outs, ok1 := m["outputs"].([]any)
		_, ok2 := m["signatures"].([]any)
		if !ok1 || !ok2 {
			e.add("outputs/signatures arrays missing")
		}
		for _, it := range outs {
			om, _ := it.(map[string]any)
			if om == nil {
				continue
			}
			wantStr(e, om, "B_")
			wantStr(e, om, "id")
		}
		checkSigsShape(e, m["signatures"], "signatures")
	case p == "/v1/info":
		wantStr(e, m, "version")
		if pk := wantStr(e, m, "pubkey"); !isPointHex(pk) {
			e.add("info pubkey not a point")
		}
		if _, ok := m["nuts"].(map[string]any); !ok {
			e.add("nuts is %T", m["nuts"])
		}
	}
	return e.msgs
}
