package sim

import (
	"encoding/json"
	"fmt"
	"math/rand/v2"
)

// Choice is one recorded decision. Value 0 is always the "boring" alternative.
type Choice struct {
	Site string `json:"s"`
	N    int    `json:"n"`
	V    int    `json:"v"`
}

// Tape is the only source of choices in a run (DESIGN.md §3.3). It is
// segmented: segment 0 holds the run configuration, every further segment one
// driver step, so that deleting a segment during minimisation does not shift
// the interpretation of later steps.
type Tape struct {
	rng    *rand.Rand
	Replay bool
	Segs   [][]Choice
	cur    int // index of current segment
	pos    int // position inside current segment (replay)
	Draws  int
}

func NewTape(seed uint64) *Tape {
	return &Tape{rng: rand.New(rand.NewPCG(seed, seed^0x9e3779b97f4a7c15)), Segs: [][]Choice{{}}}
}

func ReplayTape(segs [][]Choice) *Tape {
	cp := make([][]Choice, len(segs))
	for i := range segs {
		cp[i] = append([]Choice(nil), segs[i]...)
	}
	if len(cp) == 0 {
		cp = [][]Choice{{}}
	}
	return &Tape{Replay: true, Segs: cp}
}

// NextSeg starts the next segment. In replay mode it returns false when the
// recorded tape has no further segment (the run then ends its step loop).
func (t *Tape) NextSeg() bool {
	if t.Replay {
		if t.cur+1 >= len(t.Segs) {
			return false
		}
		t.cur++
		t.pos = 0
		return true
	}
	t.Segs = append(t.Segs, []Choice{})
	t.cur = len(t.Segs) - 1
	t.pos = 0
	return true
}

// NumStepSegs is the number of step segments of a replay tape.
func (t *Tape) NumStepSegs() int { return len(t.Segs) - 1 }

// Choose returns a value in [0,n). n<=1 returns 0 without consuming the tape.
func (t *Tape) Choose(site string, n int) int {
	if n <= 1 {
		return 0
	}
	t.Draws++
	if t.Replay {
		seg := t.Segs[t.cur]
		if t.pos >= len(seg) {
			return 0
		}
		c := seg[t.pos]
		t.pos++
		v := c.V
		if v < 0 || v >= n {
			v = 0
		}
		return v
	}
	v := t.rng.IntN(n)
	t.Segs[t.cur] = append(t.Segs[t.cur], Choice{site, n, v})
	return v
}

// Chance is true with probability num/den; tape value 0 maps to false.
func (t *Tape) Chance(site string, num, den int) bool {
	if num <= 0 {
		return false
	}
	if num >= den {
		return true
	}
	return t.Choose(site, den) >= den-num
}

// Pick returns an index weighted by w (w[0] is the boring alternative).
func (t *Tape) Pick(site string, w ...int) int {
	tot := 0
	for _, x := range w {
		tot += x
	}
	v := t.Choose(site, tot)
	for i, x := range w {
		if v < x {
			return i
		}
		v -= x
	}
	return 0
}

// Range returns a value in [lo,hi].
func (t *Tape) Range(site string, lo, hi int) int {
	if hi <= lo {
		return lo
	}
	return lo + t.Choose(site, hi-lo+1)
}

func (t *Tape) Snapshot() [][]Choice {
	cp := make([][]Choice, len(t.Segs))
	for i := range t.Segs {
		cp[i] = append([]Choice(nil), t.Segs[i]...)
	}
	return cp
}

func (t *Tape) NonZero() int {
	n := 0
	for _, s := range t.Segs {
		for _, c := range s {
			if c.V != 0 {
				n++
			}
		}
	}
	return n
}

func TapeString(segs [][]Choice) string {
	b, _ := json.Marshal(segs)
	return string(b)
}

func (c Choice) String() string { return fmt.Sprintf("%s=%d/%d", c.Site, c.V, c.N) }
