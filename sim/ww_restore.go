package sim

import (
	"encoding/json"
	"fmt"
	"path/filepath"
	"sort"
	"strings"

	"github.com/elnosh/gonuts/wallet"
)

// C19 machinery: counter monitor and restore comparison.

func (ww *WW) det(w string) *DetTable {
	d := ww.Det[w]
	if d == nil {
		d = NewDetTable(ww.node(w).Seed())
		ww.Det[w] = d
	}
	return d
}

// extendDet makes sure the table covers every signed counter of the wallet plus a margin of `margin`.
func (ww *WW) extendDet(w string, margin uint32) {
	d := ww.det(w)
	n := ww.node(w)
	for _, m := range ww.Mints {
		mb := ww.W.Book.Mint(m)
		for id := range mb.Keysets {
			ctr := uint32(0)
			if n.Inner != nil {
				if ks := n.Inner.GetKeyset(id); ks != nil {
					ctr = ks.Counter
				}
			}
			upTo := ctr + margin
			for {
				d.Extend(id, upTo)
				// keep extending while signed outputs appear in the last `margin` counters
				last := uint32(0)
				for _, e := range d.Entries[id] {
					if mb.Sigs[e.B_] != nil && e.Counter > last {
						last = e.Counter
					}
				}
				if last+margin <= d.upTo[id] {
					break
				}
				upTo = last + margin + 1
			}
		}
	}
}

// CheckCounters (fault-free clause): no deterministic output that was already signed is submitted
// again, and the stored counter is past every signed counter.
func (ww *WW) CheckCounters(from int) int {
	W := ww.W
	for _, w := range ww.Wallets {
		ww.extendDet(w, 30)
	}
	for i := from; i < len(W.Net.Obs); i++ {
		o := W.Net.Obs[i]
		if ww.Crashed[o.From] {
			continue // the counter clause is about fault-free operation
		}
		if o.Method != "POST" || !(o.Path == "/v1/swap" || o.Path == "/v1/mint/bolt11" || o.Path == "/v1/melt/bolt11") {
			continue
		}
		d := ww.Det[o.From]
		if d == nil {
			continue
		}
		var req struct {
			Outputs []JOutput `json:"outputs"`
		}
		if json.Unmarshal(o.Req, &req) != nil {
			continue
		}
		mb := W.Book.Mint(o.Mint)
		for _, out := range req.Outputs {
			e := d.byB[out.B_]
			if e == nil {
				continue
			}
			ww.rc.S.Probe("c19_det_output_submitted")
			if sg := mb.Sigs[out.B_]; sg != nil && sg.Seq < o.Seq {
				// cause: the operation in which that counter was first signed (the one that did not
				// advance the stored counter)
				origin := ww.opAt(sg.Seq)
				W.Book.Violate("C19.counter_reuse", o.Path+"|first-signed-during:"+origin, "%s submitted the output of (keyset %s, counter %d) again in %s (during [%s]) although it was already signed during [%s]", o.From, e.Keyset, e.Counter, o.Path, ww.opAt(o.Seq), origin)
			}
		}
	}
	// stored counters
	for _, w := range ww.Wallets {
		n := ww.node(w)
		if n.W == nil || ww.Crashed[w] {
			continue
		}
		d := ww.Det[w]
		for _, m := range ww.Mints {
			mb := W.Book.Mint(m)
			for id := range mb.Keysets {
				ks := n.Inner.GetKeyset(id)
				if ks == nil {
					continue
				}
				for _, e := range d.Entries[id] {
					if mb.Sigs[e.B_] != nil && e.Counter >= ks.Counter {
						// cause: the operation during which that counter was signed without the stored
						// counter being advanced
						origin := ww.opAt(mb.Sigs[e.B_].Seq)
						W.Book.Violate("C19.counter_behind", fmt.Sprintf("active=%v|first-signed-during:%s", mb.Keysets[id].Active, origin), "%s: stored counter of keyset %s is %d but the output of counter %d was signed during [%s] (seen after %s)", w, id, ks.Counter, e.Counter, origin, ww.LastOp)
						break
					}
				}
			}
		}
	}
	return len(W.Net.Obs)
}

// expectedRestore: what a restore of w's seed must find at the mints it trusts.
func (ww *WW) expectedRestore(w string, mints []string) (spendable, pending uint64) {
	ww.extendDet(w, 310)
	d := ww.Det[w]
	for _, m := range mints {
		mb := ww.W.Book.Mint(m)
		var ys []string
		amt := map[string]uint64{}
		for id := range mb.Keysets {
			for _, e := range d.Entries[id] {
				if sg := mb.Sigs[e.B_]; sg != nil {
					y := hY(e.Secret)
					ys = append(ys, y)
					amt[y] = sg.Amount
				}
			}
		}
		sort.Strings(ys)
		st := ww.W.MintState(m, ys)
		for _, y := range ys {
			switch st[y] {
			case "UNSPENT":
				spendable += amt[y]
			case "PENDING":
				pending += amt[y]
			}
		}
	}
	return
}

// StepRestore restores wallet w from its mnemonic into an empty directory and compares. With
// replace the restored wallet takes the place of the original one (restore-then-continue).
func (ww *WW) StepRestore(replace bool) {
	w := ww.pickWallet()
	ww.restoreWallet(w, replace, "restore")
}

func (ww *WW) restoreWallet(w string, replace bool, why string) {
	W := ww.W
	n := ww.node(w)
	if n.Inner == nil {
		return
	}
	mnemonic := n.Mnemonic
	if mnemonic == "" {
		mnemonic = n.Inner.GetMnemonic()
	}
	var urls []string
	var mints []string
	if n.W != nil {
		mints = ww.walletMints(w)
	} else {
		mints = []string{mintNameOfURL(n.Mint)}
	}
	// the user who restores types the mints' URLs; the simulated user types each mint once, in its
	// plain spelling, also when the wallet had stored a second spelling that a token brought along
	// (POSTs to "http://A//..." are redirected by the mint's router and arrive as GETs: §16)
	seenURL := map[string]bool{}
	for _, m := range mints {
		u := strings.TrimRight(ww.mintURL(m), "/")
		if !seenURL[u] {
			seenURL[u] = true
			urls = append(urls, u)
		}
	}
	ww.op(fmt.Sprintf("w.restore replace=%v", replace))
	ww.nRestore++
	newName := fmt.Sprintf("%sr%d", w, ww.nRestore)
	dir := filepath.Join(W.Dir, "wallet-"+newName)
	var got uint64
	var err error
	inc := &Inc{Node: newName, Epoch: 1, Alive: true}
	old := ww.rc.S.MaxSteps
	stepsBefore := ww.rc.S.Steps
	ww.rc.S.MaxSteps += 40000
	ww.rc.S.BeginEpisode()
	ww.rc.S.Run1(ww.name("restore."+newName), inc, func() {
		got, err = wallet.Restore(dir, mnemonic, urls)
	})
	// a restore is step-hungry (one storage call per blinded message at the mint): it does not count
	// against the run's step bound
	ww.rc.S.MaxSteps = old + (ww.rc.S.Steps - stepsBefore)
	if err != nil {
		W.Book.Violate("C19.restore_failed", why, "Restore failed: %v", err)
		return
	}
	ww.rc.S.Probe("c19_restore_done")
	ww.rc.Nontrivial = true
	// the mint-side truth is read after the restore: its state checks make the mint resolve pending melts
	expSp, expPend := ww.expectedRestore(w, mints)
	if got != expSp {
		W.Book.Violate("C19.restore_amount", why, "Restore of %s returned %d sat, the mint holds %d sat unspent (and %d pending) for that seed's outputs (after %s)", w, got, expSp, expPend, why)
	}
	// open the restored wallet and compare its balances
	home := mintNameOfURL(n.Mint)
	var rn *WalletNode
	var lerr error
	ww.rc.Quietly(func() {
		rn = &WalletNode{Name: newName, Dir: dir, Mint: "http://" + home, Rec: newWalletRec()}
		W.Wallets[newName] = rn
		_, lerr = W.StartWallet(newName, home)
	})
	if lerr != nil {
		W.Book.Violate("C19.restored_wallet_unusable", why, "restored wallet does not load: %v", lerr)
		delete(W.Wallets, newName)
		return
	}
	var bal, pend uint64
	ww.rc.Quietly(func() { bal = rn.W.GetBalance(); pend = rn.W.PendingBalance() })
	if bal != expSp || pend != expPend {
		W.Book.Violate("C19.restore_incomplete", why, "restored wallet of %s holds %d spendable + %d pending, the mint holds %d unspent + %d pending for that seed (after %s)", w, bal, pend, expSp, expPend, why)
	}
	if replace {
		// the original wallet is retired; the restored one continues with the same seed
		W.StopWallet(w)
		for i, x := range ww.Wallets {
			if x == w {
				ww.Wallets[i] = newName
			}
		}
		ww.Det[newName] = ww.Det[w]
		// the restored wallet is a fresh installation: its own operation is fault-free again
		ww.Crashed[newName] = false
		ww.PendQ[newName] = nil
		for _, t := range ww.Tokens {
			if t.From == w {
				t.From = newName
			}
			if t.To == w {
				t.To = newName
			}
		}
		ww.rc.S.Probe("c19_restore_then_continue")
	} else {
		W.StopWallet(newName)
		delete(W.Wallets, newName)
	}
}
