package sim

import (
	"encoding/json"
	"fmt"
	"strings"
	"time"

	"github.com/anishathalye/porcupine"
)

// Linearizability of melt-free concurrent episodes (DESIGN.md §5), checked with porcupine
// over invoke/return events stamped with the simulator's global event sequence number and
// partitioned per secret (spend register) and per B_ (signature register).

type linIn struct {
	Key  string
	Kind string // swap | check | sign | restore
}

type linOut struct {
	OK      bool   // swap / sign succeeded
	State   string // check
	Present bool   // restore
}

var linModel = porcupine.Model{
	Partition: func(history []porcupine.Operation) [][]porcupine.Operation {
		m := map[string][]porcupine.Operation{}
		var keys []string
		for _, op := range history {
			k := op.Input.(linIn).Key
			if _, ok := m[k]; !ok {
				keys = append(keys, k)
			}
			m[k] = append(m[k], op)
		}
		out := make([][]porcupine.Operation, 0, len(keys))
		for _, k := range keys {
			out = append(out, m[k])
		}
		return out
	},
	Init: func() interface{} { return 0 },
	Step: func(state, input, output interface{}) (bool, interface{}) {
		st := state.(int)
		in := input.(linIn)
		out := output.(linOut)
		switch in.Kind {
		case "swap", "sign":
			if out.OK {
				return st == 0, 1
			}
			return true, st // a failed request has no effect, whatever the state
		case "check":
			if st == 0 {
				return out.State == "UNSPENT", st
			}
			return out.State == "SPENT", st
		case "restore":
			return out.Present == (st == 1), st
		}
		return false, st
	},
	DescribeOperation: func(input, output interface{}) string {
		return fmt.Sprintf("%v -> %v", input, output)
	},
}

// LinCheckEpisode builds the history of the observations with index >= from and checks it.
// prior tells the initial state of keys: secrets already spent / B_ already signed before the episode.
func (b *Book) LinCheckEpisode(from int, rule string) {
	var ops []porcupine.Operation
	cid := 0
	// keys touched by any melt attempt are judged by invariants only (melts expose PENDING by design)
	melted := map[string]bool{}
	for _, m := range b.M {
		for _, q := range m.LQ {
			for _, at := range q.Attempts {
				for _, p := range at.Inputs {
					melted["s:"+p.Secret] = true
				}
			}
		}
	}
	add := func(o *HTTPObs, in linIn, out linOut) {
		if melted[in.Key] {
			return
		}
		ops = append(ops, porcupine.Operation{ClientId: cid % 64, Input: in, Call: int64(o.Seq), Output: out, Return: int64(o.RetSeq)})
	}
	obs := b.w.Net.Obs
	// initial state: keys consumed/signed before the episode get a synthetic completed op at time 0
	seenKey := map[string]bool{}
	pre := func(key, kind string, o *HTTPObs) {
		if seenKey[key] {
			return
		}
		seenKey[key] = true
		m := b.Mint(o.Mint)
		if kind == "swap" {
			sec := strings.TrimPrefix(key, "s:")
			if r := m.Secrets[sec]; r != nil {
				for _, c := range r.Cons {
					if c.Seq < obs[from].Seq {
						ops = append(ops, porcupine.Operation{ClientId: 63, Input: linIn{key, "swap"}, Call: 0, Output: linOut{OK: true}, Return: 1})
						return
					}
				}
			}
		} else {
			bb := strings.TrimPrefix(key, "b:")
			if sg := m.Sigs[bb]; sg != nil && sg.Seq < obs[from].Seq {
				ops = append(ops, porcupine.Operation{ClientId: 63, Input: linIn{key, "sign"}, Call: 0, Output: linOut{OK: true}, Return: 1})
			}
		}
	}
	for i := from; i < len(obs); i++ {
		o := obs[i]
		cid++
		if o.Status == 0 || o.Method != "POST" {
			continue
		}
		switch o.Path {
		case "/v1/swap":
			var req struct {
				Inputs  []JProof  `json:"inputs"`
				Outputs []JOutput `json:"outputs"`
			}
			if json.Unmarshal(o.Req, &req) != nil {
				continue
			}
			ok := o.Status == 200
			seen := map[string]bool{}
			for _, p := range req.Inputs {
				if seen[p.Secret] {
					continue
				}
				seen[p.Secret] = true
				pre("s:"+p.Secret, "swap", o)
				add(o, linIn{"s:" + p.Secret, "swap"}, linOut{OK: ok})
			}
			for _, out := range req.Outputs {
				pre("b:"+out.B_, "sign", o)
				add(o, linIn{"b:" + out.B_, "sign"}, linOut{OK: ok})
			}
		case "/v1/checkstate":
			if o.Status != 200 {
				continue
			}
			var resp struct {
				States []struct {
					Y     string `json:"Y"`
					State string `json:"state"`
				} `json:"states"`
			}
			if json.Unmarshal(o.Resp, &resp) != nil {
				continue
			}
			for _, st := range resp.States {
				// map Y back to the secret if the harness knows it
				if sec := b.w.secretOfY(st.Y); sec != "" {
					pre("s:"+sec, "swap", o)
					add(o, linIn{"s:" + sec, "check"}, linOut{State: st.State})
				}
			}
		case "/v1/restore":
			if o.Status != 200 {
				continue
			}
			var req struct {
				Outputs []JOutput `json:"outputs"`
			}
			var resp struct {
				Outputs []JOutput `json:"outputs"`
			}
			if json.Unmarshal(o.Req, &req) != nil || json.Unmarshal(o.Resp, &resp) != nil {
				continue
			}
			got := map[string]bool{}
			for _, x := range resp.Outputs {
				got[x.B_] = true
			}
			for _, x := range req.Outputs {
				pre("b:"+x.B_, "sign", o)
				add(o, linIn{"b:" + x.B_, "restore"}, linOut{Present: got[x.B_]})
			}
		}
	}
	if len(ops) == 0 {
		return
	}
	res := porcupine.CheckOperationsTimeout(linModel, ops, 10*time.Second)
	switch res {
	case porcupine.Illegal:
		b.Violate(rule, "porcupine", "concurrent episode (observations %d..%d, %d register operations) is not linearizable against the sequential spend/sign model", from, len(obs)-1, len(ops))
	case porcupine.Unknown:
		b.w.S.Stats["lin_unknown"]++
	default:
		b.w.S.Stats["lin_ok"]++
		b.w.S.Stats["lin_ops"] += len(ops)
	}
}

func (w *World) secretOfY(y string) string {
	if w.yIndex == nil {
		w.yIndex = map[string]string{}
	}
	for ; w.yIndexed < len(w.AllProofs); w.yIndexed++ {
		p := w.AllProofs[w.yIndexed]
		w.yIndex[p.Y()] = p.Secret
	}
	return w.yIndex[y]
}
