package sim

import "time"

// C01 — no double spend. Mint-level world, attacker re-presenting used secrets,
// concurrent episodes sharing secrets, every melt Lightning outcome.

func init() {
	Register(&Profile{Prop: "C01", Fatal: []string{"C01."}, Run: runC01, Core: coreC01})
}

func coreC01(tier string) []RunSpec {
	var out []RunSpec
	n := 12
	if tier == "thorough" {
		n = 60
	}
	// payments that outlive the expiry of their quote
	for k := 0; k < 8; k++ {
		out = append(out, RunSpec{Profile: "core:late-resolution", Params: map[string]int{"late": 1, "k": k}})
	}
	// race-heavy scenarios with fixed shape: k-th variation of the tape under forced step kind
	for _, kind := range []string{"race", "replay", "dup", "stalerelease"} {
		for k := 0; k < n; k++ {
			out = append(out, RunSpec{Profile: "core:" + kind, Params: map[string]int{"force": mwKind(kind), "k": k}})
		}
	}
	// one storage error at the k-th storage call of a melt that is settled internally, then the mint is
	// restarted, then everything that was ever presented is presented again
	for k := 1; k <= 22; k++ {
		out = append(out, RunSpec{Profile: "core:internal-fault-restart-replay", Params: map[string]int{"frr": 1, "fk": k}})
	}
	return out
}

var mwKinds = []string{"fund", "swap", "melt", "resolve", "replay", "dup", "race", "checkstate", "restore", "restart", "clock", "adversarial", "internal", "rotate", "mintrace", "stalerelease", "meltpollrace"}

func mwKind(k string) int {
	for i, x := range mwKinds {
		if x == k {
			return i
		}
	}
	return 0
}

func (m *MW) Step(kind int, allowRotate bool) {
	switch mwKinds[kind] {
	case "fund":
		m.StepFund()
	case "swap":
		m.StepSwap()
	case "melt":
		m.StepMelt()
	case "resolve":
		m.StepResolve()
	case "replay":
		m.StepReplay()
	case "dup":
		m.StepDup()
	case "race":
		m.StepRace()
	case "checkstate":
		m.StepCheckstate()
	case "restore":
		m.StepRestore()
	case "restart":
		m.StepRestart(allowRotate)
	case "clock":
		m.StepClock()
	case "adversarial":
		m.StepAdversarial()
	case "internal":
		m.StepInternal()
	case "rotate":
		m.StepRotateRuntime()
	case "mintrace":
		m.StepMintRace()
	case "stalerelease":
		m.StepStaleRelease()
	case "meltpollrace":
		m.StepMeltPollRace()
	}
}

func runC01(rc *RunCtx) {
	T := rc.T
	ln := LNConfig{FeePolicy: T.Choose("cfg.feepol", 4), PayOutcomeMix: 1}
	if T.Chance("cfg.amb", 1, 3) {
		ln.AmbiguousPct = 20
	}
	fee := []uint{0, 0, 100, 1000}[T.Choose("cfg.fee", 4)]
	rc.S.Policy = T.Choose("cfg.policy", 3)
	rc.NewMintWorld(ln, MintOpts{Fee: fee})
	m := NewMW(rc, "A")
	m.Locks = true
	m.Fees = map[string][]uint64{"A": {uint64(fee)}}
	rc.Quietly(func() {
		m.User.Fund("A", 64+32+16+8+4+2+1)
		m.User.Fund("A", 200)
	})
	if rc.P("frr", 0) == 1 {
		m.Faulted = true
		m.step = 0
		m.NextPlans = []*FaultPlan{{Node: "A", Kind: "db_error", SeamKind: "db", Pos: rc.P("fk", 1)}}
		m.Step(mwKind("internal"), false)
		m.NextPlans = nil
		m.StepRestart(false)
		for i, k := range []string{"replay", "swap", "swap", "replay", "swap", "checkstate", "replay"} {
			m.step = 1 + i
			m.Step(mwKind(k), false)
		}
		m.Finale()
		rc.S.Probe("c01_internal_fault_restart_replay")
		rc.Nontrivial = true
		return
	}
	if rc.P("late", 0) == 1 {
		// a payment that outlives its quote's expiry: melt stays pending, hours pass, polls and state
		// checks look at it, the attacker re-presents its inputs, and only then the payment ends
		for i := 0; i < 2; i++ {
			m.step = -10 + i
			rc.W.LN.ForceNextPay = "pending"
			m.StepMelt()
		}
		rc.W.LN.ForceNextPay = ""
		rc.Op("clock+2h")
		rc.S.Sleep(2 * time.Hour)
		for i, k := range []string{"checkstate", "replay", "replay", "swap", "replay", "resolve", "replay", "checkstate"} {
			m.step = i
			if k == "replay" && len(m.Pending) > 0 {
				// quote polls of every melt still pending, as a wallet does before it retries
				rc.Quietly(func() {
					for _, pm := range m.Pending {
						m.User.PollMeltQuote(pm.Mint, pm.Q.ID)
					}
				})
			}
			m.Step(mwKind(k), false)
		}
		rc.S.Probe("c01_late_resolution")
	}
	forced, isForced := rc.Spec.Params["force"]
	// weights:       fund swap melt resolve replay dup race checkstate restore restart clock adv internal rotate
	weights := []int{2, 3, 3, 2, 4, 2, 6, 2, 1, 1, 1, 0, 1, 0, 0, 3, 2}
	// a quarter of the random runs additionally inject storage errors into ordinary operations
	faults := !isForced && T.Chance("cfg.faults", 1, 4)
	rc.StepLoop(3, 14, func(i int) {
		m.step = i
		kind := T.Pick("step.kind", weights...)
		if isForced && i%2 == 1 {
			kind = forced
		}
		m.StepMaybeFaulted(kind, false, faults)
	})
	m.Finale()
	rc.Nontrivial = rc.S.Stats["race_episode"] > 0 || rc.S.Stats["replay_spent"] > 0 || rc.S.Stats["replay_pending"] > 0 || rc.S.Stats["dup_in_request"] > 0
}
