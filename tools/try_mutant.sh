#!/bin/sh
# usage: tools/try_mutant.sh <patch.diff> <budget_s> <prop> [prop...]
# Applies a seeded change to /repo, runs the given checks (quick tier), and always reverts /repo.
patch=$1; budget=$2; shift 2
cd /repo || exit 2
if [ -n "$(git status --porcelain)" ]; then echo "/repo is dirty, refusing"; exit 2; fi
git apply "$patch" || { echo "patch does not apply"; exit 2; }
trap 'git -C /repo checkout -- . ; git -C /repo clean -fdq -- . 2>/dev/null' EXIT INT TERM
for p in "$@"; do
  out=$(cd /verif && VERIF_BUDGET_S=$budget ./check $p quick 2>&1)
  rc=$?
  echo "== $p exit=$rc"
  echo "$out" | grep -v "^KNOWN-FINDING\|^note:" | tail -6 | cut -c1-400
done
