#!/bin/sh
# usage: tools/try_mutant.sh <patch.diff> <budget_s> <prop> [prop...]
# Applies a seeded change to /repo, runs the given checks (quick tier), and always reverts /repo.
patch=$1; budget=$2; shift 2
cd /repo || exit 2
if [ -n "$(git status --porcelain)" ]; then echo "/repo is dirty, refusing"; exit 2; fi
trap 'git -C /repo reset -q --hard HEAD ; git -C /repo clean -fdq -- . 2>/dev/null' EXIT INT TERM
# older seeded changes were written against an earlier HEAD: fall back to a three-way merge
git apply "$patch" 2>/dev/null || git apply --3way "$patch" 2>/dev/null || { echo "patch does not apply"; exit 2; }
if git diff --name-only --diff-filter=U | grep -q .; then echo "patch does not apply (conflict)"; exit 2; fi
for p in "$@"; do
  out=$(cd /verif && VERIF_BUDGET_S=$budget ./check $p quick 2>&1)
  rc=$?
  echo "== $p exit=$rc"
  echo "$out" | grep -v "^KNOWN-FINDING\|^note:" | tail -6 | cut -c1-400
done
