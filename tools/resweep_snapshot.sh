#!/bin/sh
# usage (inside `vp run --with-repo`): tools/resweep_snapshot.sh [budget_s] [glob]
# Re-runs kept seeded changes against their property's quick check, entirely inside the run's
# snapshot: patches go to $VP_RUN_REPO (never /repo), the checks are the snapshot's own.
budget=${1:-30}; glob=${2:-*}
V=$(pwd); R=${VP_RUN_REPO:?needs --with-repo}
export VERIF_REPO=$R GOFLAGS=-mod=mod GOPROXY=off GOSUMDB=off GOTOOLCHAIN=local
cd $V/seeded || exit 2
for d in $glob; do
  d=${d%/}
  [ -f "$d/meta.json" ] || continue
  prop=$(python3 -c "import json;print(json.load(open('$d/meta.json'))['breaks_property'])")
  exp=$(python3 -c "import json;print('undetected' if 'NOT DETECTED' in json.load(open('$d/meta.json'))['detected_by'].upper() else 'detected')")
  git -C $R reset -q --hard HEAD; git -C $R clean -fdq
  if ! ( git -C $R apply $V/seeded/$d/patch.diff 2>/dev/null || git -C $R apply --3way $V/seeded/$d/patch.diff 2>/dev/null ) || git -C $R diff --name-only --diff-filter=U | grep -q .; then
    echo "$d prop=$prop expected=$exp result=PATCH-DOES-NOT-APPLY"; git -C $R reset -q --hard HEAD; continue
  fi
  out=$(cd $V && VERIF_BUDGET_S=$budget ./check $prop quick 2>&1); rc=$?
  case $rc in 1) res=detected;; 0) res=undetected;; *) res="other rc=$rc: $(echo "$out" | tail -1 | cut -c1-100)";; esac
  echo "$d prop=$prop expected=$exp result=$res $(echo "$out" | grep -m1 -o 'rule=[^ ]*')"
  git -C $R reset -q --hard HEAD; git -C $R clean -fdq
done
