#!/bin/sh
# usage: tools/try_benign.sh <patch.diff> <budget_s> <prop> [prop...]
# Applies a behaviour-preserving change to /repo, runs the given checks, always reverts /repo.
# Every check must exit 0: anything else is a false alarm (or the change is not as benign as claimed).
patch=$1; budget=$2; shift 2
cd /repo || exit 2
if [ -n "$(git status --porcelain)" ]; then echo "/repo is dirty, refusing"; exit 2; fi
git apply "$patch" || { echo "patch does not apply"; exit 2; }
trap 'git -C /repo checkout -- . ; git -C /repo clean -fdq -- . 2>/dev/null' EXIT INT TERM
for p in "$@"; do
  out=$(cd /verif && VERIF_BUDGET_S=$budget ./check $p quick 2>&1)
  rc=$?
  if [ $rc -ne 0 ]; then
    echo "== $p exit=$rc  <-- ALARM"
    echo "$out" | grep -v "^KNOWN-FINDING\|^note:" | tail -8 | cut -c1-500
  else
    echo "== $p ok: $(echo "$out" | tail -1 | cut -c1-120)"
  fi
done
