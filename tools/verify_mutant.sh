#!/bin/sh
# usage: tools/verify_mutant.sh <id> [suffix]
# Confirms an independently produced change in a fresh scratch worktree: applies, builds, existing suite passes,
# the demonstration fails with the change and passes without it. Writes /verif/seeded/<id><suffix>/.
id=$1; sfx=$2
src=${SRC_ROOT:-/tmp/mut}/$id
wt=/tmp/vm/$id$sfx
export GOFLAGS=-mod=mod
rm -rf $wt; mkdir -p /tmp/vm
git -C /repo worktree add -q --detach $wt HEAD || exit 2
demo=$(cd $src && git status --porcelain | grep '^??' | grep '_test.go' | grep -v '^?? _' | awk '{print $2}' | head -1)
[ -z "$demo" ] && { echo "no demo test found"; git -C /repo worktree remove --force $wt; exit 2; }
pkg=$(dirname $demo)
cd $wt
git apply $src/_out/patch.diff || { echo "patch does not apply"; cd /; git -C /repo worktree remove --force $wt; exit 2; }
build=$(go build ./... 2>&1 && echo BUILD_OK)
suite=$(go test -vet=off -count=1 ./... 2>&1 | grep -v "no test files" | grep -v "^ok" | head -5)
cp $src/$demo $wt/$demo
with=$(go test -vet=off -count=1 -run 'Demo' ./$pkg/ 2>&1 | tail -3)
git checkout -q -- . 
without=$(go test -vet=off -count=1 -run 'Demo' ./$pkg/ 2>&1 | tail -3)
echo "build: $build"; echo "suite (non-ok lines): [$suite]"; echo "demo WITH change: $with"; echo "demo WITHOUT change: $without"
out=/verif/seeded/$id$sfx; mkdir -p $out
cp $src/_out/patch.diff $out/patch.diff; cp $src/$demo $out/$(basename $demo); cp $src/_out/notes.md $out/notes.md 2>/dev/null
cd /; git -C /repo worktree remove --force $wt
