#!/bin/sh
# usage: tools/resweep.sh [budget_s] > results   Re-runs every kept seeded change against its property's quick check.
budget=${1:-30}
cd /verif/seeded || exit 2
for d in */; do
  d=${d%/}
  [ -f "$d/meta.json" ] || continue
  prop=$(python3 -c "import json;print(json.load(open('$d/meta.json'))['breaks_property'])")
  exp=$(python3 -c "import json;print('undetected' if 'NOT DETECTED' in json.load(open('$d/meta.json'))['detected_by'] else 'detected')")
  out=$(/verif/tools/try_mutant.sh /verif/seeded/$d/patch.diff $budget $prop 2>&1)
  if echo "$out" | grep -q "does not apply"; then res="PATCH-DOES-NOT-APPLY";
  elif echo "$out" | grep -q "exit=1"; then res="detected";
  elif echo "$out" | grep -q "exit=0"; then res="undetected";
  else res="other: $(echo "$out" | tail -1 | cut -c1-80)"; fi
  echo "$d prop=$prop expected=$exp result=$res"
done
