#!/bin/sh
# usage: tools/process_wave.sh <src_root> <suffix> <id> [extra props...]
# Confirms a delivered change (verify_mutant.sh) and runs the property's own quick check (and any extra ones) against it.
root=$1; sfx=$2; id=$3; shift 3
export GOFLAGS=-mod=mod
echo "===== $id$sfx"
SRC_ROOT=$root /verif/tools/verify_mutant.sh $id $sfx 2>&1 | tail -6 | grep -E "build|suite|demo|no demo|not apply" | cut -c1-140
/verif/tools/try_mutant.sh $root/$id/_out/patch.diff ${BUDGET:-40} $id "$@" 2>&1 | grep -E "VIOLATION|rule=|runs|exit|error|refusing" | head -8 | cut -c1-420
